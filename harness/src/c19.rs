//! C19 — `c19-tx`: eval_phase_two on recorded and synthetic Conway transactions against
//!  (1) DIRECT evaluation by this harness of each script applied to datum / redeemer / context
//!      with the same budget threading (the context is built with the real
//!      `tx::script_context` + `to_plutus_data`: validated, not proved),
//!  (2) the Lean model of the redeemer loop (`driver budget loop …`),
//!  (3) itself under permutation of resolved inputs / witness scripts / datums,
//!  (4) budgets around the exact total.
use crate::{driver, prng::Prng, report, report::Report, Ctx};
use num_bigint::BigInt;
use pallas_codec::utils::{
    Bytes, CborWrap, KeyValuePairs, NonEmptyKeyValuePairs, NonEmptySet, NonZeroInt, Nullable, Set,
};
use pallas_crypto::hash::{Hash, Hasher};
use pallas_primitives::{
    conway::{
        Anchor, Certificate, CostModels, DatumOption, ExUnits, GovAction, GovActionId, Language,
        MintedTx, PlutusData, PlutusScript as PScript, PostAlonzoTransactionOutput,
        ProposalProcedure, PseudoScript, Redeemer, RedeemerTag, Redeemers, RedeemersKey,
        RedeemersValue, StakeCredential, TransactionBody, TransactionInput, TransactionOutput, Tx,
        Value, Vote, Voter, VotingProcedure, WitnessSet,
    },
    Fragment,
};
use pallas_traverse::{ComputeHash, Era, MultiEraTx};
use serde_json::{json, Value as J};
use std::collections::HashMap;
use uplc::{
    ast::{Constant, Data, DeBruijn, FakeNamedDeBruijn, NamedDeBruijn, Program, Term},
    machine::{cost_model::ExBudget, eval_result::EvalResult},
    tx::{
        self,
        script_context::{
            find_script, DataLookupTable, PlutusScript, ResolvedInput, SlotConfig, TxInfoV1,
            TxInfoV2, TxInfoV3,
        },
        to_plutus_data::ToPlutusData,
    },
};

// ---------------------------------------------------------------- a case = one call of eval_phase_two

fn tohex(b: &[u8]) -> String {
    hex::encode(b)
}

#[derive(Clone)]
struct Case {
    name: String,
    tx: Vec<u8>,
    utxos: Vec<(Vec<u8>, Vec<u8>)>, // (input cbor, output cbor) in the order supplied
    cms: Option<[Option<Vec<i64>>; 3]>,
    budget: Option<(i64, i64)>, // (cpu, mem)
    slot: (u64, u64, u32),      // zero_time, zero_slot, slot_length
    phase_one: bool,
    proto: Option<u16>,
    /// script overrides: (hash hex, language, script bytes)
    overrides: Vec<(Vec<u8>, u8, Vec<u8>)>,
    /// what the builder knows about each redeemer (witness order); None = ask the real `find_script`
    expect: Option<Vec<Expect>>,
    /// does the builder expect the phase-one gate to fail (only meaningful with phase_one)
    p1_fails: Option<bool>,
}

#[derive(Clone, Debug)]
enum Expect {
    Known { lang: u8, script: Vec<u8>, datum: Option<PlutusData> },
    Missing(String),
}

impl Case {
    fn to_json(&self) -> J {
        json!({
            "name": self.name, "tx": tohex(&self.tx),
            "utxos": self.utxos.iter().map(|(i, o)| json!([tohex(i), tohex(o)])).collect::<Vec<_>>(),
            "cost_models": self.cms, "budget": self.budget, "slot": [self.slot.0, self.slot.1, self.slot.2],
            "phase_one": self.phase_one, "protocol": self.proto,
            "overrides": self.overrides.iter().map(|(h, l, s)| json!([tohex(h), l, tohex(s)])).collect::<Vec<_>>(),
        })
    }
    fn from_json(v: &J) -> Option<Case> {
        let hx = |x: &J| hex::decode(x.as_str()?).ok();
        let cms = match &v["cost_models"] {
            J::Null => None,
            a => {
                let mut out: [Option<Vec<i64>>; 3] = [None, None, None];
                for k in 0..3 {
                    if let Some(xs) = a[k].as_array() {
                        out[k] = Some(xs.iter().map(|x| x.as_i64().unwrap()).collect());
                    }
                }
                Some(out)
            }
        };
        Some(Case {
            name: v["name"].as_str().unwrap_or("replay").to_string(),
            tx: hx(&v["tx"])?,
            utxos: v["utxos"].as_array()?.iter().map(|p| Some((hx(&p[0])?, hx(&p[1])?))).collect::<Option<Vec<_>>>()?,
            cms,
            budget: if v["budget"].is_null() { None } else { Some((v["budget"][0].as_i64()?, v["budget"][1].as_i64()?)) },
            slot: (v["slot"][0].as_u64()?, v["slot"][1].as_u64()?, v["slot"][2].as_u64()? as u32),
            phase_one: v["phase_one"].as_bool()?,
            proto: v["protocol"].as_u64().map(|x| x as u16),
            overrides: v["overrides"].as_array().map(|a| a.iter().filter_map(|p| Some((hx(&p[0])?, p[1].as_u64()? as u8, hx(&p[2])?))).collect()).unwrap_or_default(),
            expect: None,
            p1_fails: None,
        })
    }
    fn cost_models(&self) -> Option<CostModels> {
        self.cms.as_ref().map(|c| CostModels {
            plutus_v1: c[0].clone(),
            plutus_v2: c[1].clone(),
            plutus_v3: c[2].clone(),
        })
    }
    fn resolved(&self) -> Vec<ResolvedInput> {
        self.utxos
            .iter()
            .map(|(i, o)| ResolvedInput {
                input: TransactionInput::decode_fragment(i).expect("input cbor"),
                output: TransactionOutput::decode_fragment(o).expect("output cbor"),
            })
            .collect()
    }
    fn slot_config(&self) -> SlotConfig {
        SlotConfig { zero_time: self.slot.0, zero_slot: self.slot.1, slot_length: self.slot.2 }
    }
    fn start_budget(&self) -> ExBudget {
        match self.budget {
            Some((cpu, mem)) => ExBudget { cpu, mem },
            None => ExBudget::default(),
        }
    }
}

fn lang_of(l: u8) -> Language {
    match l {
        1 => Language::PlutusV1,
        2 => Language::PlutusV2,
        _ => Language::PlutusV3,
    }
}

fn to_repo_script(lang: u8, bytes: &[u8]) -> PlutusScript {
    match lang {
        1 => PlutusScript::V1(PScript::<1>(Bytes::from(bytes.to_vec()))),
        2 => PlutusScript::V2(PScript::<2>(Bytes::from(bytes.to_vec()))),
        _ => PlutusScript::V3(PScript::<3>(Bytes::from(bytes.to_vec()))),
    }
}

fn script_hash(lang: u8, bytes: &[u8]) -> Hash<28> {
    Hasher::<224>::hash_tagged(bytes, lang)
}

// ---------------------------------------------------------------- classification of real answers

/// class of a `tx::error::Error` by its Debug head (works on the patched and unpatched tree)
fn class_of(dbg: &str) -> String {
    let head: String = dbg.chars().take_while(|c| c.is_alphanumeric()).collect();
    match head.as_str() {
        "Machine" => {
            if dbg.starts_with("Machine(OutOfExError") { "oob".into() } else { "machine".into() }
        }
        "InvalidScriptResult" => "invalid-result".into(),
        "MissingRequiredScript" => "missing-script".into(),
        "MissingRequiredDatum" => "missing-datum".into(),
        "MissingRequiredInlineDatumOrHash" => "missing-inline-datum-or-hash".into(),
        "ResolvedInputNotFound" => "input-not-found".into(),
        "MissingScriptForRedeemer" => "missing-script-for-redeemer".into(),
        "NonScriptStakeCredential" | "NonScriptWithdrawal" | "NoGuardrailScriptForProcedure"
        | "UnsupportedCertificateType" => "non-script".into(),
        "CostModelNotFound" => "cost-model-not-found".into(),
        "FlatDecode" => "decode".into(),
        _ => "txinfo".into(),
    }
}

fn tag_name(t: &RedeemerTag) -> &'static str {
    match t {
        RedeemerTag::Spend => "Spend",
        RedeemerTag::Mint => "Mint",
        RedeemerTag::Reward => "Withdraw",
        RedeemerTag::Cert => "Publish",
        RedeemerTag::Propose => "Propose",
        RedeemerTag::Vote => "Vote",
    }
}

/// canonical answer of the real code: `ok c:m,…` | `err phase-one` | `err <pos|?> <class>` | `panic …`
fn real_answer(case: &Case) -> (String, Vec<(i64, i64)>) {
    let c = case.clone();
    let r = report::guarded(move || {
        let mtx = MultiEraTx::decode_for_era(Era::Conway, &c.tx).expect("conway tx");
        let tx = mtx.as_conway().expect("conway");
        let utxos = c.resolved();
        let cms = c.cost_models();
        let budget = c.budget.map(|(cpu, mem)| ExBudget { cpu, mem });
        let slot = c.slot_config();
        let keys: Vec<(String, u32)> = match tx.transaction_witness_set.redeemer.as_ref() {
            Some(rs) => tx::iter_redeemers(rs).map(|(k, _, _)| (tag_name(&k.tag).to_string(), k.index)).collect(),
            None => vec![],
        };
        let ov: HashMap<Hash<28>, PlutusScript> = c
            .overrides
            .iter()
            .map(|(h, l, s)| (Hash::<28>::from(h.as_slice()), to_repo_script(*l, s)))
            .collect();
        let res = match c.proto {
            Some(p) => tx::eval_phase_two_with_override_and_protocol(
                tx, &utxos, cms.as_ref(), budget.as_ref(), &slot, p, ov, c.phase_one, |_| (),
            ),
            None => tx::eval_phase_two_with_override(
                tx, &utxos, cms.as_ref(), budget.as_ref(), &slot, ov, c.phase_one, |_| (),
            ),
        };
        match res {
            Ok(list) => {
                let units: Vec<(i64, i64)> =
                    list.iter().map(|(r, _)| (r.ex_units.steps as i64, r.ex_units.mem as i64)).collect();
                // the redeemers come back in witness order with their data
                let same_keys = list.len() == keys.len()
                    && list.iter().zip(keys.iter()).all(|((r, _), k)| tag_name(&r.tag) == k.0 && r.index == k.1);
                let s = units.iter().map(|(c, m)| format!("{c}:{m}")).collect::<Vec<_>>().join(",");
                (if same_keys { format!("ok {s}") } else { format!("ok-reordered {s}") }, units)
            }
            Err(e) => {
                let dbg = format!("{:?}", e);
                if dbg.starts_with("RedeemerError") {
                    // RedeemerError { tag: "Spend", index: 0, err: Machine(..) }
                    let tag = dbg.split("tag: \"").nth(1).and_then(|s| s.split('"').next()).unwrap_or("?").to_string();
                    let index: u32 = dbg.split("index: ").nth(1).and_then(|s| s.split(',').next()).and_then(|s| s.parse().ok()).unwrap_or(u32::MAX);
                    let inner = dbg.split("err: ").nth(1).unwrap_or("?");
                    let pos = keys.iter().position(|k| k.0 == tag && k.1 == index);
                    (format!("err {} {}", pos.map(|p| p.to_string()).unwrap_or("?".into()), class_of(inner)), vec![])
                } else if c.phase_one && (dbg.starts_with("RequiredRedeemersMismatch") || dbg.starts_with("BadWithdrawalAddress")) {
                    ("err phase-one".to_string(), vec![])
                } else {
                    (format!("err ? {}", class_of(&dbg)), vec![])
                }
            }
        }
    });
    match r {
        Ok(x) => x,
        Err(p) => (format!("panic {}", p.chars().take(80).collect::<String>()), vec![]),
    }
}

// ---------------------------------------------------------------- direct evaluation

#[derive(Clone, Debug)]
enum Direct {
    Stage(String),
    Run { lang: u8, cost: (i64, i64), kind: &'static str }, // kind: unit | true | other | fail | oob
}

fn kind_of(r: &EvalResult) -> &'static str {
    match &r.result {
        Err(uplc::machine::Error::OutOfExError(_)) => "oob",
        Err(_) => "fail",
        Ok(Term::Error) => "fail",
        Ok(Term::Constant(c)) => match c.as_ref() {
            Constant::Unit => "unit",
            Constant::Bool(true) => "true",
            _ => "other",
        },
        Ok(_) => "other",
    }
}

struct World<'a> {
    tx: &'a MintedTx<'a>,
    utxos: &'a [ResolvedInput],
    slot: SlotConfig,
    cms: Option<CostModels>,
    proto: Option<u16>,
    /// argument table from the MODEL: (lang, has_datum) -> list of "datum"/"redeemer"/"context"
    args: &'a HashMap<(u8, bool), Vec<String>>,
}

/// the evaluator's answer for `script` applied to the arguments the model selects, under `budget`
fn direct(w: &World, redeemer: &Redeemer, e: &Expect, budget: ExBudget) -> Direct {
    let (lang, script, datum) = match e {
        Expect::Missing(code) => return Direct::Stage(code.clone()),
        Expect::Known { lang, script, datum } => (*lang, script, datum.clone()),
    };
    let language = lang_of(lang);
    let costs: Option<Vec<i64>> = match &w.cms {
        None => None,
        Some(c) => {
            let m = match lang { 1 => &c.plutus_v1, 2 => &c.plutus_v2, _ => &c.plutus_v3 };
            match m {
                Some(v) => Some(v.clone()),
                None => return Direct::Stage("cost-model-not-found".into()),
            }
        }
    };
    let info = match lang {
        1 => TxInfoV1::from_transaction(w.tx, w.utxos, &w.slot),
        2 => TxInfoV2::from_transaction(w.tx, w.utxos, &w.slot),
        _ => TxInfoV3::from_transaction(w.tx, w.utxos, &w.slot),
    };
    let info = match info {
        Ok(i) => i,
        Err(err) => {
            let c = class_of(&format!("{:?}", err));
            return Direct::Stage(if c == "input-not-found" { c } else { "txinfo".into() });
        }
    };
    let sc = match info.into_script_context(redeemer, datum.as_ref()) {
        Some(sc) => sc,
        None => return Direct::Stage("txinfo".into()),
    };
    let ctx_data = sc.to_plutus_data();
    let mut buffer = Vec::new();
    let program: Program<NamedDeBruijn> = match Program::<FakeNamedDeBruijn>::from_cbor(script, &mut buffer) {
        Ok(p) => p.into(),
        Err(_) => return Direct::Stage("decode".into()),
    };
    let mut program = program;
    for a in &w.args[&(lang, datum.is_some())] {
        program = match a.as_str() {
            "datum" => program.apply_data(datum.clone().unwrap()),
            "redeemer" => program.apply_data(redeemer.data.clone()),
            _ => program.apply_data(ctx_data.clone()),
        };
    }
    let r = match (&costs, w.proto) {
        (Some(c), Some(p)) => program.eval_as_with_protocol(&language, p, c, Some(&budget)),
        (Some(c), None) => program.eval_as(&language, c, Some(&budget)),
        (None, Some(p)) => program.eval_version_with_protocol(budget, &language, p),
        (None, None) => program.eval_version(budget, &language),
    };
    let cost = r.cost();
    Direct::Run { lang, cost: (cost.cpu, cost.mem), kind: kind_of(&r) }
}

fn ledger_accepts(lang: u8, kind: &str) -> bool {
    match kind {
        "fail" | "oob" => false,
        "unit" => true,
        _ => lang != 3,
    }
}

const HUGE: ExBudget = ExBudget { cpu: i64::MAX / 4, mem: i64::MAX / 4 };

struct Checked {
    real: String,
    units: Vec<(i64, i64)>,
    /// per redeemer, under an unlimited budget
    outcomes: Vec<Direct>,
}

/// run one case: real answer, direct oracle (property), model request (correspondence)
fn check_case(case: &Case, args: &HashMap<(u8, bool), Vec<String>>, rep: &mut Report, pending: &mut Vec<Pending>) -> Checked {
    let (real, units) = real_answer(case);
    rep.evaluations += 1;
    let mtx = MultiEraTx::decode_for_era(Era::Conway, &case.tx).expect("conway tx");
    let tx = mtx.as_conway().expect("conway");
    let utxos = case.resolved();
    let redeemers: Option<Vec<Redeemer>> = tx.transaction_witness_set.redeemer.as_ref().map(|rs| {
        tx::iter_redeemers(rs)
            .map(|(k, d, ex)| Redeemer { tag: k.tag, index: k.index, data: d.clone(), ex_units: ex })
            .collect()
    });
    let w = World { tx, utxos: &utxos, slot: case.slot_config(), cms: case.cost_models(), proto: case.proto, args };
    // expectations: from the builder, or (recorded / replayed transactions) from the real find_script
    let expect: Vec<Expect> = match (&case.expect, &redeemers) {
        (Some(e), _) => e.clone(),
        (None, None) => vec![],
        (None, Some(rs)) => {
            let mut table = DataLookupTable::from_transaction(tx, &utxos);
            for (h, l, s) in &case.overrides {
                table.override_script(Hash::<28>::from(h.as_slice()), to_repo_script(*l, s));
            }
            rs.iter()
                .map(|r| {
                    let r2 = r.clone();
                    match report::guarded(std::panic::AssertUnwindSafe(|| find_script(&r2, tx, &utxos, &table))) {
                        Ok(Ok((s, d))) => {
                            let (lang, bytes) = match &s {
                                PlutusScript::V1(x) => (1, x.0.to_vec()),
                                PlutusScript::V2(x) => (2, x.0.to_vec()),
                                PlutusScript::V3(x) => (3, x.0.to_vec()),
                            };
                            Expect::Known { lang, script: bytes, datum: d }
                        }
                        Ok(Err(e)) => Expect::Missing(class_of(&format!("{:?}", e))),
                        Err(_) => Expect::Missing("panic".into()),
                    }
                })
                .collect()
        }
    };
    let rs = redeemers.clone().unwrap_or_default();
    // ---- (1) direct oracle with the threaded budget: what the property prescribes
    let mut remaining = case.start_budget();
    let mut want_units: Vec<(i64, i64)> = vec![];
    let mut want_fail: Option<(usize, String)> = None;
    for (i, r) in rs.iter().enumerate() {
        let d = report::guarded(std::panic::AssertUnwindSafe(|| direct(&w, r, &expect[i], remaining)))
            .unwrap_or(Direct::Stage("panic".into()));
        match d {
            Direct::Stage(c) => {
                want_fail = Some((i, c));
                break;
            }
            Direct::Run { lang, cost, kind } => {
                if !ledger_accepts(lang, kind) {
                    let class = match kind { "oob" => "oob", "fail" => "machine", _ => "invalid-result" };
                    want_fail = Some((i, class.into()));
                    break;
                }
                if cost.0 < 0 || cost.1 < 0 || cost.0 > remaining.cpu || cost.1 > remaining.mem {
                    rep.fail(
                        &format!("c19:within:{}", case.name),
                        "the evaluator reported a cost outside [0, budget] (hypothesis `Within` of total_le_budget)",
                        case.to_json(),
                        json!({"redeemer": i, "cost": [cost.0, cost.1], "budget": [remaining.cpu, remaining.mem]}),
                    );
                }
                want_units.push(cost);
                remaining.cpu -= cost.0;
                remaining.mem -= cost.1;
            }
        }
    }
    let p1_known_fail = case.phase_one && case.p1_fails == Some(true);
    let direct_answer = if p1_known_fail {
        "err phase-one".to_string()
    } else {
        match &want_fail {
            None => format!("ok {}", want_units.iter().map(|(c, m)| format!("{c}:{m}")).collect::<Vec<_>>().join(",")),
            Some((i, c)) => format!("err {} {}", i, c),
        }
    };
    // ---- outcomes under an unlimited budget (input of the model)
    let outcomes: Vec<Direct> = rs
        .iter()
        .enumerate()
        .map(|(i, r)| {
            report::guarded(std::panic::AssertUnwindSafe(|| direct(&w, r, &expect[i], HUGE))).unwrap_or(Direct::Stage("panic".into()))
        })
        .collect();
    let mut fields: Vec<String> = outcomes
        .iter()
        .enumerate()
        .map(|(i, o)| match o {
            Direct::Stage(c) if c == "cost-model-not-found" || c == "txinfo" || c == "decode" => match &expect[i] {
                Expect::Known { lang, .. } if c == "cost-model-not-found" => format!("found:v{lang}"),
                Expect::Known { lang, .. } => format!("found:v{lang}:{c}"),
                _ => format!("stage:{c}"),
            },
            Direct::Stage(c) => format!("stage:{c}"),
            Direct::Run { lang, cost, kind } => format!("run:v{}:{}:{}:{}", lang, cost.0, cost.1, if *kind == "oob" { "fail" } else { kind }),
        })
        .collect();
    if redeemers.is_none() {
        fields = vec!["nored".into()];
    }
    let cms = match &case.cms {
        None => "none".to_string(),
        Some(c) => c.iter().map(|x| if x.is_some() { 'p' } else { 'n' }).collect(),
    };
    let p1 = if !case.phase_one { "nop1" } else if p1_known_fail { "p1fail" } else { "p1" };
    let (bc, bm) = match case.budget { Some((c, m)) => (c.to_string(), m.to_string()), None => ("-".into(), "-".into()) };
    let mk = |j: &str, b: &str| format!("budget loop {j} {b} {cms} {p1} {bc} {bm} {}", fields.join(" "));
    let fail_allows_either: Vec<bool> = outcomes.iter().map(|o| matches!(o, Direct::Run { kind, .. } if *kind == "fail" || *kind == "oob")).collect();
    pending.push(Pending {
        case: case.clone(),
        real: real.clone(),
        direct: direct_answer,
        req_fixed: mk("fixed", "fixed"),
        req_legacy_judge: mk("legacy", "fixed"),
        req_legacy_budget: mk("fixed", "legacy"),
        req_legacy_both: mk("legacy", "legacy"),
        fail_allows_either,
    });
    Checked { real, units, outcomes }
}

struct Pending {
    case: Case,
    real: String,
    direct: String,
    req_fixed: String,
    req_legacy_judge: String,
    req_legacy_budget: String,
    req_legacy_both: String,
    fail_allows_either: Vec<bool>,
}

/// equality of canonical answers up to what the real code cannot express:
/// `?` position (errors that `eval_redeemer` returns unwrapped), machine/oob for a script that fails anyway
fn same_answer(real: &str, other: &str, either: &[bool]) -> bool {
    let a = real.trim();
    let b = other.trim();
    if a == b {
        return true;
    }
    let pa: Vec<&str> = a.split(' ').collect();
    let pb: Vec<&str> = b.split(' ').collect();
    if pa.len() == 3 && pb.len() == 3 && pa[0] == "err" && pb[0] == "err" {
        let pos_ok = pa[1] == "?" || pb[1] == "?" || pa[1] == pb[1];
        let idx: Option<usize> = pb[1].parse().ok();
        let cls_ok = pa[2] == pb[2]
            || (["oob", "machine"].contains(&pa[2]) && ["oob", "machine"].contains(&pb[2]) && idx.map(|i| either.get(i).copied().unwrap_or(false)).unwrap_or(false));
        return pos_ok && cls_ok;
    }
    false
}

fn settle(pending: Vec<Pending>, rep: &mut Report) {
    let mut reqs = vec![];
    for p in &pending {
        reqs.push(p.req_fixed.clone());
        reqs.push(p.req_legacy_judge.clone());
        reqs.push(p.req_legacy_budget.clone());
        reqs.push(p.req_legacy_both.clone());
    }
    let replies = driver::run(&reqs);
    for (k, p) in pending.iter().enumerate() {
        let fixed = &replies[4 * k];
        let either = &p.fail_allows_either;
        let head = p.real.split(' ').next().unwrap_or("").to_string();
        rep.count(&format!("real:{}", if head == "err" { p.real.split(' ').nth(2).unwrap_or("phase-one").to_string() } else { head.clone() }));
        rep.nontrivial.insert(format!("{}|{}", p.case.name.split('#').next().unwrap_or(""), p.real));
        // model (property-conform variant) vs direct oracle: the two references must agree
        if !same_answer(&p.direct, fixed, either) {
            rep.disagree(&format!("c19:model-vs-direct:{}", p.case.name), &p.req_fixed, &p.direct, fixed);
            continue;
        }
        if same_answer(&p.real, &p.direct, either) && same_answer(&p.real, fixed, either) {
            continue;
        }
        // the real code departs from the property: which known departure explains it exactly?
        let lj = same_answer(&p.real, &replies[4 * k + 1], either);
        let lb = same_answer(&p.real, &replies[4 * k + 2], either);
        let lboth = same_answer(&p.real, &replies[4 * k + 3], either);
        let base = p.case.name.split('#').next().unwrap_or("").to_string();
        if lj {
            rep.fail(
                &format!("c19:v3-nonunit:{base}"),
                "eval_phase_two reports success although a Plutus V3 script returned a value other than unit (the ledger rejects it)",
                p.case.to_json(),
                json!({"real": p.real, "property": p.direct, "model_fixed": fixed, "model_legacy": replies[4 * k + 1]}),
            );
        } else if lb || lboth {
            rep.fail(
                &format!("c19:budget-ignored-without-cost-models:{base}"),
                "without cost models every redeemer is evaluated against ExBudget::default(), not against the budget left by the previous ones",
                p.case.to_json(),
                json!({"real": p.real, "property": p.direct, "model_fixed": fixed, "model_legacy": replies[4 * k + 3], "also_v3_nonunit": lboth && !lb}),
            );
        } else {
            rep.fail(
                &format!("c19:units:{}", p.case.name),
                "eval_phase_two does not report what direct evaluation of the scripts (same arguments, threaded budget) gives",
                p.case.to_json(),
                json!({"real": p.real, "direct": p.direct}),
            );
            rep.disagree(&format!("c19:loop:{}", p.case.name), &p.req_fixed, &p.real, fixed);
        }
    }
}

// ---------------------------------------------------------------- recorded transactions (tx/tests.rs)

fn after<'a>(s: &'a str, pat: &str) -> Option<&'a str> {
    s.find(pat).map(|i| &s[i + pat.len()..])
}
fn number_after(s: &str, pat: &str) -> Option<i64> {
    let rest = after(s, pat)?;
    let digits: String = rest.chars().take_while(|c| c.is_ascii_digit() || *c == '_' || *c == '-').filter(|c| *c != '_').collect();
    digits.parse().ok()
}
fn quoted_after(s: &str, pat: &str) -> Option<String> {
    let rest = after(s, pat)?;
    Some(rest[..rest.find('"')?].to_string())
}
fn int_list(s: &str) -> Option<Vec<i64>> {
    let body = &s[..s.find("];")?];
    body.split(',').map(|x| x.trim()).filter(|x| !x.is_empty()).map(|x| x.replace('_', "").parse::<i64>().ok()).collect()
}

struct Recorded {
    case: Case,
    expected: Option<Vec<(i64, i64)>>,
}

/// fail-closed extraction of the arguments of every `eval_phase_two` call in tx/tests.rs
fn recorded(root: &str) -> Vec<Recorded> {
    let path = format!("{root}/repo/crates/uplc/src/tx/tests.rs");
    let src = std::fs::read_to_string(&path).unwrap_or_else(|e| panic!("cannot read {path}: {e}"));
    let mut out = vec![];
    for block in src.split("#[test]").skip(1) {
        if !block.contains("eval_phase_two(") {
            continue;
        }
        let name = after(block, "fn ").and_then(|r| r.find('(').map(|i| r[..i].to_string())).expect("test name");
        let bad = |what: &str| -> ! { panic!("tx/tests.rs::{name}: cannot extract {what} (extractor is fail-closed; adapt harness/src/c19.rs)") };
        let tx_hex = quoted_after(block, "let tx_bytes = hex::decode(\"").unwrap_or_else(|| bad("tx_bytes"));
        let tx = hex::decode(tx_hex.trim()).unwrap_or_else(|_| bad("tx hex"));
        let outs_hex = quoted_after(block, "let raw_outputs = hex::decode(\"").unwrap_or_else(|| bad("raw_outputs"));
        let outs = Vec::<TransactionOutput>::decode_fragment(&hex::decode(outs_hex).unwrap_or_else(|_| bad("outputs hex"))).unwrap_or_else(|_| bad("outputs cbor"));
        let ins: Vec<TransactionInput> = match quoted_after(block, "let raw_inputs = hex::decode(\"") {
            Some(h) => Vec::<TransactionInput>::decode_fragment(&hex::decode(h).unwrap_or_else(|_| bad("inputs hex"))).unwrap_or_else(|_| bad("inputs cbor")),
            None => {
                if !block.contains(".transaction_body") || !block.contains(".inputs") {
                    bad("raw_inputs");
                }
                let m = MultiEraTx::decode_for_era(Era::Conway, &tx).unwrap_or_else(|_| bad("conway tx"));
                m.as_conway().unwrap().transaction_body.inputs.clone().to_vec()
            }
        };
        let utxos = ins.iter().zip(outs.iter()).map(|(i, o)| (i.encode_fragment().unwrap(), o.encode_fragment().unwrap())).collect();
        let slot = (
            number_after(block, "zero_time: ").unwrap_or_else(|| bad("zero_time")) as u64,
            number_after(block, "zero_slot: ").unwrap_or_else(|| bad("zero_slot")) as u64,
            number_after(block, "slot_length: ").unwrap_or_else(|| bad("slot_length")) as u32,
        );
        let costs = after(block, "let costs: Vec<i64> = vec![").and_then(int_list).unwrap_or_else(|| bad("costs"));
        let mut cms: [Option<Vec<i64>>; 3] = [None, None, None];
        for (k, f) in ["plutus_v1: ", "plutus_v2: ", "plutus_v3: "].iter().enumerate() {
            let rest = after(block, f).unwrap_or_else(|| bad(f));
            if rest.starts_with("Some(costs)") {
                cms[k] = Some(costs.clone());
            } else if !rest.starts_with("None") {
                bad(f);
            }
        }
        let ib = after(block, "let initial_budget = ExBudget {").unwrap_or_else(|| bad("initial_budget"));
        let budget = (number_after(ib, "cpu: ").unwrap_or_else(|| bad("cpu")), number_after(ib, "mem: ").unwrap_or_else(|| bad("mem")));
        let call = after(block, "&slot_config,").unwrap_or_else(|| bad("call"));
        let flag = call.trim_start();
        let phase_one = if flag.starts_with("false,") { false } else if flag.starts_with("true,") { true } else { bad("run_phase_one") };
        if !block.contains("Some(&cost_mdl)") || !block.contains("Some(&initial_budget)") {
            bad("cost model / budget arguments");
        }
        let expected = after(block, "let expected_budgets: Vec<ExBudget> = vec![").map(|mut rest| {
            let end = rest.find("];").unwrap_or_else(|| bad("expected budgets"));
            rest = &rest[..end];
            let mut v = vec![];
            let mut cur = rest;
            while let Some(m) = number_after(cur, "mem: ") {
                let c = number_after(cur, "cpu: ").unwrap_or_else(|| bad("expected cpu"));
                v.push((c, m));
                cur = after(cur, "cpu: ").unwrap();
            }
            v
        });
        out.push(Recorded {
            case: Case {
                name: format!("recorded:{name}"),
                tx,
                utxos,
                cms: Some(cms),
                budget: Some(budget),
                slot,
                phase_one,
                proto: None,
                overrides: vec![],
                expect: None,
                p1_fails: None,
            },
            expected,
        });
    }
    if out.len() < 9 {
        panic!("tx/tests.rs: only {} eval_phase_two calls recognised (extractor is fail-closed)", out.len());
    }
    out
}

/// `const DEFAULT_V3: [i64; N] = [ … ];` of machine/cost_model.rs (private in the crate)
fn default_v3(root: &str) -> Vec<i64> {
    let path = format!("{root}/repo/crates/uplc/src/machine/cost_model.rs");
    let src = std::fs::read_to_string(&path).unwrap_or_else(|e| panic!("cannot read {path}: {e}"));
    let rest = after(&src, "const DEFAULT_V3: [i64;").expect("DEFAULT_V3 not found (fail-closed)");
    let rest = after(rest, "= [").expect("DEFAULT_V3 body");
    let v = int_list(rest).expect("DEFAULT_V3 numbers");
    assert!(v.len() >= 200, "DEFAULT_V3 too short");
    v
}

// ---------------------------------------------------------------- synthetic transactions

#[derive(Clone, Copy, Debug, PartialEq)]
enum Purpose { Spend, Mint, Withdraw, Publish, Vote, Propose }
#[derive(Clone, Copy, Debug, PartialEq)]
enum Kind { Succeeds, Fails, Loop(u32), Int1, BoolFalse, BoolTrue, UsesArgs }
#[derive(Clone, Copy, Debug, PartialEq)]
enum DatumMode { Inline, Hashed, Absent }
#[derive(Clone, Copy, Debug, PartialEq)]
enum Defect { None, MissingScript, MissingDatum, MissingUtxo, ExtraRedeemer }

#[derive(Clone, Debug)]
struct Item {
    purpose: Purpose,
    lang: u8,
    kind: Kind,
    datum: DatumMode,
    via_ref: bool,
    nonce: i64,
}

fn script_text(lang: u8, arity: usize, kind: Kind, nonce: i64) -> String {
    let names = ["a", "b", "c"];
    let used = &names[3 - arity..];
    let first = used[0];
    let last = used[arity - 1];
    let body = match kind {
        Kind::Succeeds => "(con unit ())".to_string(),
        Kind::Fails => "(error)".to_string(),
        Kind::Int1 => "(con integer 1)".to_string(),
        Kind::BoolFalse => "(con bool False)".to_string(),
        Kind::BoolTrue => "(con bool True)".to_string(),
        Kind::Loop(n) => format!(
            "[ (lam f [ [ f f ] (con integer {n}) ]) (lam self (lam n (force [ [ [ (force (builtin ifThenElse)) [ [ (builtin equalsInteger) n ] (con integer 0) ] ] (delay (con unit ())) ] (delay [ [ self self ] [ [ (builtin subtractInteger) n ] (con integer 1) ] ]) ]))) ]"
        ),
        Kind::UsesArgs => {
            if arity == 1 {
                // cost depends on the whole context; result unit
                format!("[ (lam x (con unit ())) [ [ (builtin equalsData) {last} ] {last} ] ]")
            } else {
                format!("[ (lam x (con unit ())) [ [ (builtin equalsData) {first} ] {last} ] ]")
            }
        }
    };
    let mut t = format!("[ (lam nonce {body}) (con integer {nonce}) ]");
    for v in used.iter().rev() {
        t = format!("(lam {v} {t})");
    }
    format!("(program {} {t})", if lang == 3 { "1.1.0" } else { "1.0.0" })
}

fn compile(text: &str) -> Vec<u8> {
    let p = uplc::parser::program(text).unwrap_or_else(|e| panic!("harness script does not parse: {e:?}\n{text}"));
    let p: Program<DeBruijn> = p.try_into().expect("closed script");
    p.to_cbor().expect("to_cbor")
}

fn rand_hash<const N: usize>(rng: &mut Prng) -> Hash<N> {
    let mut b = [0u8; N];
    for x in b.iter_mut() {
        *x = rng.below(256) as u8;
    }
    // a few colliding prefixes so that the sort has ties on the first bytes
    if rng.chance(1, 3) {
        b[0] = 0x11;
        b[1] = 0x22;
    }
    Hash::<N>::from(b)
}

fn rand_data(rng: &mut Prng, depth: u32) -> PlutusData {
    match if depth == 0 { rng.below(2) } else { rng.below(5) } {
        0 => Data::integer(BigInt::from(rng.range(-1000, 1000))),
        1 => Data::bytestring((0..rng.below(6)).map(|_| rng.below(256) as u8).collect()),
        2 => Data::list((0..rng.below(3)).map(|_| rand_data(rng, depth - 1)).collect()),
        3 => Data::constr(rng.below(3) as u64, (0..rng.below(3)).map(|_| rand_data(rng, depth - 1)).collect()),
        _ => Data::map((0..rng.below(2)).map(|_| (rand_data(rng, 0), rand_data(rng, depth - 1))).collect()),
    }
}

fn shuffle<T>(rng: &mut Prng, v: &mut Vec<T>) {
    for i in (1..v.len()).rev() {
        let j = rng.below(i + 1);
        v.swap(i, j);
    }
}

struct Built {
    tx: Tx,
    utxos: Vec<ResolvedInput>,
    expect: Vec<Expect>,
    p1_fails: bool,
    summary: String,
}

fn address(header: u8, h: &Hash<28>) -> Bytes {
    let mut v = vec![header];
    v.extend_from_slice(h.as_ref());
    Bytes::from(v)
}

fn build(rng: &mut Prng, items: &[Item], defect: Defect, redeemers_as_map: bool, n_key_inputs: usize) -> Built {
    let net = 0u8; // testnet
    let mut scripts: Vec<(u8, Vec<u8>, Hash<28>)> = vec![];
    for it in items {
        let arity = match (it.lang, it.purpose) {
            (3, _) => 1,
            (_, Purpose::Spend) => if it.datum == DatumMode::Absent { 2 } else { 3 },
            _ => 2,
        };
        let bytes = compile(&script_text(it.lang, arity, it.kind, it.nonce));
        let h = script_hash(it.lang, &bytes);
        scripts.push((it.lang, bytes, h));
    }
    let victim = if items.is_empty() { 0 } else { rng.below(items.len()) };
    let mut utxos: Vec<ResolvedInput> = vec![];
    let mut inputs: Vec<TransactionInput> = vec![];
    let mut ref_inputs: Vec<TransactionInput> = vec![];
    let mut wit_data: Vec<PlutusData> = vec![];
    let mut wit: [Vec<Vec<u8>>; 3] = [vec![], vec![], vec![]];
    let mut datums: Vec<Option<PlutusData>> = vec![None; items.len()];
    let mut spend_inputs: Vec<Option<TransactionInput>> = vec![None; items.len()];
    let mut mint: Vec<(Hash<28>, Bytes, i64)> = vec![];
    let mut withdrawals: Vec<(Bytes, u64)> = vec![];
    let mut certs: Vec<Certificate> = vec![];
    let mut votes: Vec<(Voter, GovActionId)> = vec![];
    let mut proposals: Vec<ProposalProcedure> = vec![];
    let coin_out = |addr: Bytes, datum: Option<DatumOption>, script_ref| {
        TransactionOutput::PostAlonzo(PostAlonzoTransactionOutput { address: addr, value: Value::Coin(2_000_000), datum_option: datum, script_ref })
    };
    for (k, it) in items.iter().enumerate() {
        let (lang, bytes, h) = scripts[k].clone();
        let omit_script = defect == Defect::MissingScript && k == victim;
        if !omit_script {
            if it.via_ref {
                let i = TransactionInput { transaction_id: rand_hash::<32>(rng), index: rng.below(4) as u64 };
                let sr = match lang {
                    1 => PseudoScript::PlutusV1Script(PScript::<1>(Bytes::from(bytes.clone()))),
                    2 => PseudoScript::PlutusV2Script(PScript::<2>(Bytes::from(bytes.clone()))),
                    _ => PseudoScript::PlutusV3Script(PScript::<3>(Bytes::from(bytes.clone()))),
                };
                utxos.push(ResolvedInput { input: i.clone(), output: coin_out(address(0x60 | net, &rand_hash::<28>(rng)), None, Some(CborWrap(sr))) });
                // the output carrying the script is a reference input — or, one time in three, a key-locked
                // output SPENT by the same transaction (its reference script is available all the same)
                if rng.chance(1, 3) {
                    inputs.push(i);
                } else {
                    ref_inputs.push(i);
                }
            } else {
                wit[(lang - 1) as usize].push(bytes.clone());
            }
        }
        match it.purpose {
            Purpose::Spend => {
                let i = TransactionInput { transaction_id: rand_hash::<32>(rng), index: rng.below(4) as u64 };
                let d = rand_data(rng, 2);
                let opt = match it.datum {
                    DatumMode::Inline => {
                        datums[k] = Some(d.clone());
                        Some(DatumOption::Data(CborWrap(d)))
                    }
                    DatumMode::Hashed => {
                        datums[k] = Some(d.clone());
                        if !(defect == Defect::MissingDatum && k == victim) {
                            wit_data.push(d.clone());
                        }
                        Some(DatumOption::Hash(d.compute_hash()))
                    }
                    DatumMode::Absent => None,
                };
                if !(defect == Defect::MissingUtxo && k == victim) {
                    utxos.push(ResolvedInput { input: i.clone(), output: coin_out(address(0x70 | net, &h), opt, None) });
                }
                spend_inputs[k] = Some(i.clone());
                inputs.push(i);
            }
            Purpose::Mint => mint.push((h, Bytes::from(vec![b't', k as u8]), if rng.chance(1, 2) { 5 } else { -3 })),
            Purpose::Withdraw => withdrawals.push((address(0xF0 | net, &h), 0)),
            Purpose::Publish => certs.push(Certificate::StakeDeregistration(StakeCredential::ScriptHash(h))),
            Purpose::Vote => votes.push((Voter::DRepScript(h), GovActionId { transaction_id: rand_hash::<32>(rng), action_index: rng.below(3) as u32 })),
            Purpose::Propose => proposals.push(ProposalProcedure {
                deposit: 1_000_000,
                reward_account: address(0xE0 | net, &rand_hash::<28>(rng)),
                gov_action: GovAction::TreasuryWithdrawals(KeyValuePairs::from(vec![]), Nullable::Some(h)),
                anchor: Anchor { url: "https://example.invalid".into(), content_hash: rand_hash::<32>(rng) },
            }),
        }
    }
    for _ in 0..n_key_inputs.max(if inputs.is_empty() { 1 } else { 0 }) {
        let i = TransactionInput { transaction_id: rand_hash::<32>(rng), index: rng.below(4) as u64 };
        utxos.push(ResolvedInput { input: i.clone(), output: coin_out(address(0x60 | net, &rand_hash::<28>(rng)), None, None) });
        inputs.push(i);
    }
    shuffle(rng, &mut inputs);
    // canonical positions (this harness's own sort: bytes of the id, then the index)
    let mut sorted_inputs = inputs.clone();
    sorted_inputs.sort_by(|a, b| a.transaction_id.as_ref().cmp(b.transaction_id.as_ref()).then(a.index.cmp(&b.index)));
    let mut sorted_policies: Vec<Hash<28>> = mint.iter().map(|m| m.0).collect();
    sorted_policies.sort_by(|a, b| a.as_ref().cmp(b.as_ref()));
    let mut sorted_wd: Vec<Bytes> = withdrawals.iter().map(|w| w.0.clone()).collect();
    sorted_wd.sort_by(|a, b| a.to_vec().cmp(&b.to_vec()));
    let mut sorted_voters: Vec<Hash<28>> = votes.iter().map(|v| match &v.0 { Voter::DRepScript(h) => *h, _ => unreachable!() }).collect();
    sorted_voters.sort_by(|a, b| a.as_ref().cmp(b.as_ref()));
    // redeemers
    let mut reds: Vec<(Redeemer, Expect)> = vec![];
    let (mut ci, mut pi) = (0u32, 0u32);
    for (k, it) in items.iter().enumerate() {
        let (lang, bytes, h) = scripts[k].clone();
        let (tag, index) = match it.purpose {
            Purpose::Spend => (RedeemerTag::Spend, sorted_inputs.iter().position(|x| Some(x) == spend_inputs[k].as_ref()).unwrap() as u32),
            Purpose::Mint => (RedeemerTag::Mint, sorted_policies.iter().position(|x| *x == h).unwrap() as u32),
            Purpose::Withdraw => (RedeemerTag::Reward, sorted_wd.iter().position(|x| *x == address(0xF0 | net, &h)).unwrap() as u32),
            Purpose::Publish => { ci += 1; (RedeemerTag::Cert, ci - 1) }
            Purpose::Vote => (RedeemerTag::Vote, sorted_voters.iter().position(|x| *x == h).unwrap() as u32),
            Purpose::Propose => { pi += 1; (RedeemerTag::Propose, pi - 1) }
        };
        let r = Redeemer { tag, index, data: rand_data(rng, 2), ex_units: ExUnits { mem: rng.below(1000) as u64, steps: rng.below(1000) as u64 } };
        let any_missing_utxo = defect == Defect::MissingUtxo && items[victim].purpose == Purpose::Spend;
        let e = if any_missing_utxo && it.purpose == Purpose::Spend {
            Expect::Missing("input-not-found".into())
        } else if defect == Defect::MissingScript && k == victim {
            Expect::Missing("missing-script".into())
        } else if defect == Defect::MissingDatum && k == victim && it.purpose == Purpose::Spend && it.datum == DatumMode::Hashed
            // (another input may carry the very same datum, which then IS in the witness set)
            && !wit_data.contains(datums[k].as_ref().unwrap())
        {
            Expect::Missing("missing-datum".into())
        } else if it.purpose == Purpose::Spend && it.datum == DatumMode::Absent && lang != 3 {
            Expect::Missing("missing-inline-datum-or-hash".into())
        } else {
            Expect::Known { lang, script: bytes, datum: datums[k].clone() }
        };
        reds.push((r, e));
    }
    if defect == Defect::ExtraRedeemer {
        let r = Redeemer { tag: RedeemerTag::Spend, index: (sorted_inputs.len() + rng.below(3)) as u32, data: rand_data(rng, 1), ex_units: ExUnits { mem: 0, steps: 0 } };
        reds.push((r, Expect::Missing("missing-script-for-redeemer".into())));
    }
    shuffle(rng, &mut reds);
    let redeemer = if reds.is_empty() {
        None
    } else if redeemers_as_map {
        Some(Redeemers::Map(
            NonEmptyKeyValuePairs::from_vec(reds.iter().map(|(r, _)| (RedeemersKey { tag: r.tag, index: r.index }, RedeemersValue { data: r.data.clone(), ex_units: r.ex_units })).collect()).unwrap(),
        ))
    } else {
        Some(Redeemers::List(pallas_codec::utils::MaybeIndefArray::Def(reds.iter().map(|(r, _)| r.clone()).collect())))
    };
    let nz = |x: i64| NonZeroInt::try_from(x).unwrap();
    let body = TransactionBody {
        inputs: Set::from(inputs),
        outputs: vec![coin_out(address(0x60 | net, &rand_hash::<28>(rng)), None, None)],
        fee: 200_000 + rng.below(1000) as u64,
        ttl: None,
        certificates: NonEmptySet::from_vec(certs),
        withdrawals: NonEmptyKeyValuePairs::from_vec(withdrawals),
        auxiliary_data_hash: None,
        validity_interval_start: None,
        mint: NonEmptyKeyValuePairs::from_vec(
            mint.iter().map(|(p, name, q)| (*p, NonEmptyKeyValuePairs::from_vec(vec![(name.clone(), nz(*q))]).unwrap())).collect(),
        ),
        script_data_hash: None,
        collateral: None,
        required_signers: None,
        network_id: None,
        collateral_return: None,
        total_collateral: None,
        reference_inputs: NonEmptySet::from_vec(ref_inputs),
        voting_procedures: NonEmptyKeyValuePairs::from_vec(
            votes.iter().map(|(v, g)| (v.clone(), NonEmptyKeyValuePairs::from_vec(vec![(g.clone(), VotingProcedure { vote: Vote::Yes, anchor: Nullable::Null })]).unwrap())).collect(),
        ),
        proposal_procedures: NonEmptySet::from_vec(proposals),
        treasury_value: None,
        donation: None,
    };
    let ws = WitnessSet {
        vkeywitness: None,
        native_script: None,
        bootstrap_witness: None,
        plutus_v1_script: NonEmptySet::from_vec(wit[0].iter().map(|b| PScript::<1>(Bytes::from(b.clone()))).collect()),
        plutus_data: NonEmptySet::from_vec(wit_data),
        redeemer,
        plutus_v2_script: NonEmptySet::from_vec(wit[1].iter().map(|b| PScript::<2>(Bytes::from(b.clone()))).collect()),
        plutus_v3_script: NonEmptySet::from_vec(wit[2].iter().map(|b| PScript::<3>(Bytes::from(b.clone()))).collect()),
    };
    shuffle(rng, &mut utxos);
    let summary = format!(
        "{}{}{}",
        items.iter().map(|i| format!("{:?}/v{}/{:?}/{:?}{}", i.purpose, i.lang, i.kind, i.datum, if i.via_ref { "/ref" } else { "" })).collect::<Vec<_>>().join("+"),
        if defect == Defect::None { String::new() } else { format!("!{:?}", defect) },
        if redeemers_as_map { "~map" } else { "~list" },
    );
    Built {
        tx: Tx { transaction_body: body, transaction_witness_set: ws, success: true, auxiliary_data: Nullable::Null },
        utxos,
        expect: reds.into_iter().map(|(_, e)| e).collect(),
        p1_fails: matches!(defect, Defect::MissingScript | Defect::ExtraRedeemer),
        summary,
    }
}

fn encode_utxos(u: &[ResolvedInput]) -> Vec<(Vec<u8>, Vec<u8>)> {
    u.iter().map(|r| (r.input.encode_fragment().unwrap(), r.output.encode_fragment().unwrap())).collect()
}

/// same transaction with witness scripts / datums reordered (the body, hence the tx id, is unchanged)
fn permute_witnesses(rng: &mut Prng, tx: &Tx) -> Tx {
    let mut t = tx.clone();
    fn sh<T: Clone>(rng: &mut Prng, s: &Option<NonEmptySet<T>>) -> Option<NonEmptySet<T>> {
        s.as_ref().and_then(|s| {
            let mut v = s.clone().to_vec();
            shuffle(rng, &mut v);
            NonEmptySet::from_vec(v)
        })
    }
    let ws = &tx.transaction_witness_set;
    t.transaction_witness_set.plutus_v1_script = sh(rng, &ws.plutus_v1_script);
    t.transaction_witness_set.plutus_v2_script = sh(rng, &ws.plutus_v2_script);
    t.transaction_witness_set.plutus_v3_script = sh(rng, &ws.plutus_v3_script);
    t.transaction_witness_set.plutus_data = sh(rng, &ws.plutus_data);
    t
}

// ---------------------------------------------------------------- the sub-command

pub fn run(ctx: &Ctx) -> Report {
    let mut rep = Report::new(
        "c19-tx",
        "eval_phase_two on the recorded transactions of tx/tests.rs and on synthetic Conway transactions \
         (V1/V2/V3 × spend inline/hashed/no datum, mint, withdraw, publish, vote, propose × witness/reference scripts × \
         always-succeeds / fails / loop / non-unit / argument-dependent scripts × missing script/datum/input, extra redeemer) \
         under permutations of resolved inputs, witness scripts and datums, budgets at total and total−1, cost models on/off/partial, \
         protocol versions, script overrides. Non-trivial = distinct (transaction shape, answer)",
    );
    let root = std::env::var("VERIF_ROOT").unwrap_or_else(|_| "/verif".into());
    let mut n: usize = if ctx.thorough { 150_000 } else { 3_000 };
    let argv: Vec<String> = std::env::args().collect();
    for i in 0..argv.len() {
        if argv[i] == "--n" {
            n = argv[i + 1].parse().expect("--n");
        }
    }
    let mut rng = Prng::new(ctx.seed);

    // ---- small tables through the driver: default budget, argument selection, failed(), sorting
    let mut treq: Vec<String> = vec!["budget default".into()];
    let mut treal: Vec<String> = vec![format!("{}:{}", ExBudget::default().cpu, ExBudget::default().mem)];
    let combos: Vec<(u8, bool)> = vec![(1, true), (1, false), (2, true), (2, false), (3, true), (3, false)];
    let args_from = treq.len();
    for (l, d) in &combos {
        treq.push(format!("budget args v{} {}", l, *d as u8));
        treal.push(String::new()); // filled by the model; validated through every evaluation below
    }
    let failed_from = treq.len();
    for l in 1..=3u8 {
        for allow in [false, true] {
            for kind in ["unit", "true", "other", "fail"] {
                let term: Result<Term<NamedDeBruijn>, uplc::machine::Error> = match kind {
                    "unit" => Ok(Term::unit()),
                    "true" => Ok(Term::bool(true)),
                    "other" => Ok(Term::integer(1.into())),
                    _ => Err(uplc::machine::Error::EvaluationFailure),
                };
                let r = EvalResult::new(term, ExBudget::default(), ExBudget::default(), vec![], None);
                treq.push(format!("budget failed v{} {} {}", l, allow as u8, kind));
                treal.push(r.failed(allow, &lang_of(l)).to_string());
            }
        }
    }
    for _ in 0..40 {
        let mut keys: Vec<RedeemersKey> = (0..1 + rng.below(8))
            .map(|_| RedeemersKey {
                tag: *rng.pick(&[RedeemerTag::Spend, RedeemerTag::Mint, RedeemerTag::Cert, RedeemerTag::Reward, RedeemerTag::Vote, RedeemerTag::Propose]),
                index: rng.below(4) as u32,
            })
            .collect();
        keys.dedup();
        let show = |k: &RedeemersKey| format!("{}:{}", match k.tag { RedeemerTag::Spend => "spend", RedeemerTag::Mint => "mint", RedeemerTag::Cert => "cert", RedeemerTag::Reward => "reward", RedeemerTag::Vote => "vote", RedeemerTag::Propose => "propose" }, k.index);
        treq.push(format!("budget sort-redeemers {}", keys.iter().map(show).collect::<Vec<_>>().join(" ")));
        // the order used by get_redeemers_info is observable through TxInfo only; here: the documented rank
        let rank = |t: &RedeemerTag| match t { RedeemerTag::Spend => 0, RedeemerTag::Mint => 1, RedeemerTag::Cert => 2, RedeemerTag::Reward => 3, RedeemerTag::Vote => 4, RedeemerTag::Propose => 5 };
        let mut s = keys.clone();
        s.sort_by(|a, b| rank(&a.tag).cmp(&rank(&b.tag)).then(a.index.cmp(&b.index)));
        treal.push(s.iter().map(show).collect::<Vec<_>>().join(" "));
    }
    let tmodel = driver::run(&treq);
    let mut args: HashMap<(u8, bool), Vec<String>> = HashMap::new();
    for (k, (l, d)) in combos.iter().enumerate() {
        let reply = &tmodel[args_from + k];
        let v: Vec<String> = reply.split(',').map(|s| s.to_string()).collect();
        if v.iter().any(|a| !["datum", "redeemer", "context"].contains(&a.as_str())) {
            rep.disagree(&format!("c19:args:v{l}:{d}"), &treq[args_from + k], "<a list of datum/redeemer/context>", reply);
        }
        args.insert((*l, *d), v);
    }
    for i in 0..treq.len() {
        rep.evaluations += 1;
        if (args_from..failed_from).contains(&i) {
            continue;
        }
        if tmodel[i].trim() != treal[i] {
            rep.disagree(&format!("c19:table:{}", treq[i]), &treq[i], &treal[i], &tmodel[i]);
        }
    }

    let mut pending: Vec<Pending> = vec![];

    // ---- corpus / replay first
    let mut replay_files: Vec<String> = vec![];
    if let Some(f) = &ctx.replay {
        replay_files.push(f.clone());
    }
    if let Ok(rd) = std::fs::read_dir(format!("{root}/corpus/C19")) {
        let mut fs: Vec<String> = rd.filter_map(|e| e.ok()).map(|e| e.path().to_string_lossy().to_string()).filter(|p| p.ends_with(".json")).collect();
        fs.sort();
        replay_files.extend(fs);
    }
    for f in &replay_files {
        let text = std::fs::read_to_string(f).unwrap_or_else(|e| panic!("cannot read {f}: {e}"));
        let v: J = serde_json::from_str(&text).unwrap_or_else(|e| panic!("{f}: {e}"));
        let input = if v["input"].is_object() { &v["input"] } else { &v };
        let case = Case::from_json(input).unwrap_or_else(|| panic!("{f}: not a c19 case"));
        rep.count("corpus-or-replay");
        check_case(&case, &args, &mut rep, &mut pending);
    }

    // ---- (a) recorded transactions
    let recs = recorded(&root);
    let v1_costs = recs.iter().find_map(|r| r.case.cms.as_ref().and_then(|c| c[0].clone())).expect("a V1 cost model in tx/tests.rs");
    let v2_costs = recs.iter().find_map(|r| r.case.cms.as_ref().and_then(|c| c[1].clone())).expect("a V2 cost model in tx/tests.rs");
    let v3_costs = default_v3(&root);
    for r in &recs {
        rep.count("recorded");
        let base = check_case(&r.case, &args, &mut rep, &mut pending);
        if let Some(exp) = &r.expected {
            if base.units != *exp {
                rep.count("recorded-units-differ-from-the-suite's-expectation");
                rep.notes.push(format!("{}: units {:?}, tests.rs expects {:?}", r.case.name, base.units, exp));
            }
        }
        rep.sample(json!({"case": r.case.name, "real": base.real}));
        variations(&r.case, &base, None, &mut rng, &args, &mut rep, &mut pending, if ctx.thorough { 6 } else { 2 });
    }

    // ---- (b) synthetic transactions
    let mut nonce = 1000i64;
    for round in 0..n {
        let n_items = match rng.below(10) { 0 => 0, 1..=4 => 1, 5..=7 => 2, 8 => 3, _ => 4 };
        let tx_lang = 1 + rng.below(3) as u8;
        let mut items = vec![];
        for _ in 0..n_items {
            let lang = if rng.chance(3, 4) { tx_lang } else { 1 + rng.below(3) as u8 };
            let gov = rng.chance(1, 12);
            let purpose = *rng.pick(if lang == 3 {
                &[Purpose::Spend, Purpose::Spend, Purpose::Mint, Purpose::Withdraw, Purpose::Publish, Purpose::Vote, Purpose::Propose][..]
            } else if gov {
                &[Purpose::Vote, Purpose::Propose][..]
            } else {
                &[Purpose::Spend, Purpose::Spend, Purpose::Mint, Purpose::Withdraw, Purpose::Publish][..]
            });
            let kind = match rng.below(14) {
                0..=4 => Kind::Succeeds,
                5 => Kind::Fails,
                6 | 7 => Kind::Loop(*rng.pick(&[1u32, 5, 50, 400])),
                8 => Kind::Int1,
                9 => Kind::BoolFalse,
                10 => Kind::BoolTrue,
                _ => Kind::UsesArgs,
            };
            let datum = match rng.below(8) {
                0..=2 => DatumMode::Inline,
                3..=5 => DatumMode::Hashed,
                _ => DatumMode::Absent,
            };
            // V1 cannot see inline datums / reference inputs: mostly avoid, sometimes keep (error path)
            let datum = if lang == 1 && datum == DatumMode::Inline && rng.chance(5, 6) { DatumMode::Hashed } else { datum };
            let via_ref = rng.chance(1, 4) && (lang != 1 || rng.chance(1, 6));
            nonce += 1;
            items.push(Item { purpose, lang, kind, datum, via_ref, nonce });
        }
        let defect = match rng.below(12) {
            0 => Defect::MissingScript,
            1 => Defect::MissingDatum,
            2 => Defect::MissingUtxo,
            3 => Defect::ExtraRedeemer,
            _ => Defect::None,
        };
        let defect = if items.is_empty() && defect != Defect::ExtraRedeemer { Defect::None } else { defect };
        let as_map = rng.chance(1, 2);
        let n_key = rng.below(3);
        let b = build(&mut rng, &items, defect, as_map, n_key);
        rep.count(&format!("items:{}", items.len()));
        for it in &items {
            rep.count(&format!("purpose:{:?}", it.purpose));
            rep.count(&format!("lang:v{}", it.lang));
            rep.count(&format!("script:{}", format!("{:?}", it.kind).split('(').next().unwrap()));
            if it.purpose == Purpose::Spend {
                rep.count(&format!("datum:{:?}", it.datum));
            }
            if it.via_ref {
                rep.count("reference-script");
            }
        }
        rep.count(&format!("defect:{:?}", defect));
        let cms = match rng.below(6) {
            0 | 1 => None,
            2 => {
                // one language without a cost model
                let mut c = [Some(v1_costs.clone()), Some(v2_costs.clone()), Some(v3_costs.clone())];
                c[rng.below(3)] = None;
                Some(c)
            }
            3 => {
                // perturbed machine / builtin parameters
                let mut c = [v1_costs.clone(), v2_costs.clone(), v3_costs.clone()];
                for v in c.iter_mut() {
                    for _ in 0..6 {
                        let k = rng.below(v.len());
                        v[k] = (v[k].max(1)).saturating_mul(1 + rng.below(3) as i64);
                    }
                }
                let [a, b2, c3] = c;
                Some([Some(a), Some(b2), Some(c3)])
            }
            _ => Some([Some(v1_costs.clone()), Some(v2_costs.clone()), Some(v3_costs.clone())]),
        };
        let proto = match rng.below(6) { 0 => Some(9u16), 1 => Some(10), 2 => Some(11), _ => None };
        let phase_one = rng.chance(1, 4) && matches!(defect, Defect::None | Defect::MissingScript | Defect::ExtraRedeemer | Defect::MissingDatum)
            // phase one also rejects unused scripts; every synthetic script is used
            ;
        let budget = match rng.below(5) { 0 => None, _ => Some((10_000_000_000i64, 14_000_000i64)) };
        // script override: replace the script of one Known redeemer by another one of the same arity
        let mut overrides = vec![];
        let mut expect = b.expect.clone();
        if rng.chance(1, 8) && !items.is_empty() && defect == Defect::None {
            let k = rng.below(expect.len());
            if let Expect::Known { lang, script, datum } = expect[k].clone() {
                let arity = args[&(lang, datum.is_some())].len();
                nonce += 1;
                let newk = *rng.pick(&[Kind::Succeeds, Kind::Fails, Kind::Loop(7), Kind::Int1]);
                let bytes = compile(&script_text(lang, arity, newk, nonce));
                overrides.push((script_hash(lang, &script).to_vec(), lang, bytes.clone()));
                expect[k] = Expect::Known { lang, script: bytes, datum };
                rep.count("override");
            }
        }
        let case = Case {
            name: format!("syn:{}#{}", b.summary, round),
            tx: b.tx.encode_fragment().expect("encode tx"),
            utxos: encode_utxos(&b.utxos),
            cms,
            budget,
            slot: (1660003200000, 0, 1000),
            phase_one,
            proto,
            overrides,
            expect: Some(expect),
            p1_fails: Some(b.p1_fails),
        };
        let base = check_case(&case, &args, &mut rep, &mut pending);
        if round < 4 {
            rep.sample(json!({"case": case.name, "real": base.real}));
        }
        variations(&case, &base, Some(&b.tx), &mut rng, &args, &mut rep, &mut pending, 2);
        if pending.len() >= 4000 {
            settle(std::mem::take(&mut pending), &mut rep);
        }
    }

    settle(pending, &mut rep);
    rep
}

/// permutations and budgets around the total for one base case
#[allow(clippy::too_many_arguments)]
fn variations(
    case: &Case,
    base: &Checked,
    owned: Option<&Tx>,
    rng: &mut Prng,
    args: &HashMap<(u8, bool), Vec<String>>,
    rep: &mut Report,
    pending: &mut Vec<Pending>,
    perms: usize,
) {
    // ---- order independence (property, on the real code alone)
    for p in 0..perms {
        let mut c = case.clone();
        c.name = format!("{}#perm{}", case.name, p);
        shuffle(rng, &mut c.utxos);
        if p == 0 {
            c.utxos.reverse();
        }
        let tx_owned: Option<Tx> = match owned {
            Some(t) => Some(t.clone()),
            None => MultiEraTx::decode_for_era(Era::Conway, &case.tx).ok().and_then(|m| m.as_conway().map(|t| Tx::from(t.clone()))),
        };
        if let Some(t) = tx_owned {
            let t2 = permute_witnesses(rng, &t);
            let bytes = t2.encode_fragment().expect("encode");
            // only keep the re-encoding when it preserves the body bytes (tx id), which it must
            let same_id = MultiEraTx::decode_for_era(Era::Conway, &bytes).ok().map(|m| m.hash())
                == MultiEraTx::decode_for_era(Era::Conway, &case.tx).ok().map(|m| m.hash());
            if same_id {
                c.tx = bytes;
            } else {
                rep.count("perm:witness-reencoding-changes-tx-id(skipped)");
            }
        }
        let (real, _) = real_answer(&c);
        rep.evaluations += 1;
        rep.count("perm");
        if real != base.real {
            rep.fail(
                &format!("c19:order:{}", case.name),
                "the answer of eval_phase_two depends on the order of resolved inputs / witness scripts / datums",
                c.to_json(),
                json!({"original_order": case.to_json(), "original": base.real, "permuted": real}),
            );
        }
    }
    // ---- budgets around the exact total
    if base.real.starts_with("ok ") && !base.units.is_empty() {
        let (tc, tm) = base.units.iter().fold((0i64, 0i64), |a, u| (a.0 + u.0, a.1 + u.1));
        for (k, b) in [(tc, tm), (tc - 1, tm), (tc, tm - 1)].iter().enumerate() {
            let mut c = case.clone();
            c.name = format!("{}#budget{}", case.name, ["=total", "=cpu-1", "=mem-1"][k]);
            c.budget = Some(*b);
            rep.count("budget-around-total");
            check_case(&c, args, rep, pending);
        }
    }
    let _ = &base.outcomes;
}
