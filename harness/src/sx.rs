//! Reader for the wire format's Data s-expressions (`(C 0 (I 1))`, `(M ((I 1) (B #00)))`,
//! `(L …)`), used for corpus / replay files and probes.  Arrays are rebuilt in the
//! encoding the caller asks for.
use num_bigint::BigInt;
use pallas_primitives::alonzo::{Constr, PlutusData};
use pallas_primitives::conway::MaybeIndefArray;
use uplc::ast::Data;

#[derive(Debug, Clone)]
pub enum Sx {
    Atom(String),
    List(Vec<Sx>),
}

pub fn parse(s: &str) -> Option<Sx> {
    let toks: Vec<String> = s
        .replace('(', " ( ")
        .replace(')', " ) ")
        .split_whitespace()
        .map(|x| x.to_string())
        .collect();
    let mut pos = 0;
    let r = parse_at(&toks, &mut pos)?;
    if pos == toks.len() {
        Some(r)
    } else {
        None
    }
}

fn parse_at(toks: &[String], pos: &mut usize) -> Option<Sx> {
    let t = toks.get(*pos)?;
    *pos += 1;
    if t == "(" {
        let mut xs = vec![];
        loop {
            if toks.get(*pos)? == ")" {
                *pos += 1;
                return Some(Sx::List(xs));
            }
            xs.push(parse_at(toks, pos)?);
        }
    } else if t == ")" {
        None
    } else {
        Some(Sx::Atom(t.clone()))
    }
}

/// `indef`: encode non-empty arrays as indefinite (what `Data::list/constr` do)
pub fn constr_raw(ix: u64, fields: Vec<PlutusData>, indef: bool) -> PlutusData {
    let d = Data::constr(ix, vec![]);
    if let PlutusData::Constr(c) = d {
        PlutusData::Constr(Constr {
            tag: c.tag,
            any_constructor: c.any_constructor,
            fields: if indef && !fields.is_empty() {
                MaybeIndefArray::Indef(fields)
            } else {
                MaybeIndefArray::Def(fields)
            },
        })
    } else {
        unreachable!()
    }
}

pub fn list_raw(xs: Vec<PlutusData>, indef: bool) -> PlutusData {
    PlutusData::Array(if indef && !xs.is_empty() {
        MaybeIndefArray::Indef(xs)
    } else {
        MaybeIndefArray::Def(xs)
    })
}

pub fn data_of(sx: &Sx, indef: bool) -> Option<PlutusData> {
    if let Sx::List(xs) = sx {
        let head = match xs.first()? {
            Sx::Atom(a) => a.as_str(),
            _ => return None,
        };
        match head {
            "C" => {
                let ix: u64 = match xs.get(1)? {
                    Sx::Atom(a) => a.parse().ok()?,
                    _ => return None,
                };
                let fs = xs[2..].iter().map(|x| data_of(x, indef)).collect::<Option<Vec<_>>>()?;
                Some(constr_raw(ix, fs, indef))
            }
            "L" => {
                let fs = xs[1..].iter().map(|x| data_of(x, indef)).collect::<Option<Vec<_>>>()?;
                Some(list_raw(fs, indef))
            }
            "M" => {
                let mut kvs = vec![];
                for e in &xs[1..] {
                    if let Sx::List(kv) = e {
                        if kv.len() != 2 {
                            return None;
                        }
                        kvs.push((data_of(&kv[0], indef)?, data_of(&kv[1], indef)?));
                    } else {
                        return None;
                    }
                }
                Some(Data::map(kvs))
            }
            "I" => match xs.get(1)? {
                Sx::Atom(a) => Some(Data::integer(a.parse::<BigInt>().ok()?)),
                _ => None,
            },
            "B" => match xs.get(1)? {
                Sx::Atom(a) => Some(Data::bytestring(hex::decode(a.strip_prefix('#')?).ok()?)),
                _ => None,
            },
            _ => None,
        }
    } else {
        None
    }
}

pub fn data(s: &str) -> Option<PlutusData> {
    data_of(&parse(s)?, true)
}
