//! C07: the type checker accepts a `when`/`let` pattern set iff it is exhaustive (and has
//! no redundant clause); reported missing patterns are really unmatched; a clause reported
//! redundant is really unreachable.
//!
//! Per case: (1) a monomorphic signature + clause list, (2) rendered as Aiken source and
//! run through the real front end (`parser::module` + `UntypedModule::infer`), (3) the Lean
//! model (`match check …`) answers the same question, (4) an independent brute force
//! (own matcher + value enumerator) judges the REAL answer.
//!
//! Extra arguments: `--n-family N` (sampled family cases, quick), `--n-random N`,
//! `--threads N`, `--probe FILE` (print the real outcome for an Aiken source and exit).
use crate::{
    driver,
    prng::Prng,
    report::{guarded, Report},
    Ctx,
};
use aiken_lang::{
    ast::{ModuleKind, TraceLevel, Tracing},
    builtins, parser,
    tipo::error::Error,
    IdGenerator,
};
use serde_json::json;
use std::collections::{BTreeMap, BTreeSet, HashMap};
use std::panic::AssertUnwindSafe;
use std::sync::atomic::{AtomicUsize, Ordering};

pub mod rt;

// ───────────────────────────── case structure ─────────────────────────────

#[derive(Clone, Copy, PartialEq, Eq, Hash, Debug)]
enum Ty {
    Int,
    Bytes,
    Data(usize),
}

#[derive(Clone, Copy, PartialEq, Eq, Debug)]
enum Kind {
    Adt,
    Generic,
    Bool,
    Option,
    List,
    Tuple,
    Pair,
}

#[derive(Clone, Debug)]
struct Ctor {
    name: String,
    fields: Vec<Ty>,
    labels: Option<Vec<String>>,
}

#[derive(Clone, Debug)]
struct Decl {
    kind: Kind,
    /// how the instance is written in a type annotation
    texpr: String,
    ctors: Vec<Ctor>,
    /// declaration text (user types only)
    src: Option<String>,
    recursive: bool,
}

type Sig = Vec<Decl>;

/// core patterns: variables and `as` are erased, lists are `::`/`[]` chains
#[derive(Clone, PartialEq, Eq, Hash, Debug)]
enum P {
    W,
    I(i128),
    B(Vec<u8>),
    /// type number, constructor index in the declaration, arguments (all fields)
    K(usize, usize, Vec<P>),
}

#[derive(Clone, Debug, PartialEq)]
enum V {
    I(i128),
    B(Vec<u8>),
    K(usize, Vec<V>),
}

#[derive(Clone, Debug)]
struct Case {
    sig: Sig,
    scrut: Ty,
    clauses: Vec<P>,
    is_let: bool,
    style_seed: u64,
    origin: &'static str,
}

fn texpr(sig: &Sig, ty: Ty) -> String {
    match ty {
        Ty::Int => "Int".into(),
        Ty::Bytes => "ByteArray".into(),
        Ty::Data(t) => sig[t].texpr.clone(),
    }
}

// ───────────────────────────── signature builder ─────────────────────────────

struct SigB {
    decls: Sig,
    by_texpr: HashMap<String, usize>,
}

impl SigB {
    fn new() -> Self {
        SigB { decls: vec![], by_texpr: HashMap::new() }
    }
    fn tx(&self, ty: Ty) -> String {
        texpr(&self.decls, ty)
    }
    fn push(&mut self, d: Decl) -> usize {
        let i = self.decls.len();
        self.by_texpr.insert(d.texpr.clone(), i);
        self.decls.push(d);
        i
    }
    fn bool_(&mut self) -> Ty {
        if let Some(&i) = self.by_texpr.get("Bool") {
            return Ty::Data(i);
        }
        let c = |n: &str| Ctor { name: n.into(), fields: vec![], labels: None };
        Ty::Data(self.push(Decl {
            kind: Kind::Bool,
            texpr: "Bool".into(),
            ctors: vec![c("False"), c("True")],
            src: None,
            recursive: false,
        }))
    }
    fn option(&mut self, a: Ty) -> Ty {
        let tx = format!("Option<{}>", self.tx(a));
        if let Some(&i) = self.by_texpr.get(&tx) {
            return Ty::Data(i);
        }
        Ty::Data(self.push(Decl {
            kind: Kind::Option,
            texpr: tx,
            ctors: vec![
                Ctor { name: "Some".into(), fields: vec![a], labels: None },
                Ctor { name: "None".into(), fields: vec![], labels: None },
            ],
            src: None,
            recursive: false,
        }))
    }
    fn list(&mut self, a: Ty) -> Ty {
        let tx = format!("List<{}>", self.tx(a));
        if let Some(&i) = self.by_texpr.get(&tx) {
            return Ty::Data(i);
        }
        let me = self.decls.len();
        Ty::Data(self.push(Decl {
            kind: Kind::List,
            texpr: tx,
            ctors: vec![
                Ctor { name: "::".into(), fields: vec![a, Ty::Data(me)], labels: None },
                Ctor { name: "[]".into(), fields: vec![], labels: None },
            ],
            src: None,
            recursive: true,
        }))
    }
    fn tuple(&mut self, ts: Vec<Ty>) -> Ty {
        let tx = format!("({})", ts.iter().map(|t| self.tx(*t)).collect::<Vec<_>>().join(", "));
        if let Some(&i) = self.by_texpr.get(&tx) {
            return Ty::Data(i);
        }
        Ty::Data(self.push(Decl {
            kind: Kind::Tuple,
            texpr: tx,
            ctors: vec![Ctor { name: "__Tuple".into(), fields: ts, labels: None }],
            src: None,
            recursive: false,
        }))
    }
    fn pair(&mut self, a: Ty, b: Ty) -> Ty {
        let tx = format!("Pair<{}, {}>", self.tx(a), self.tx(b));
        if let Some(&i) = self.by_texpr.get(&tx) {
            return Ty::Data(i);
        }
        Ty::Data(self.push(Decl {
            kind: Kind::Pair,
            texpr: tx,
            ctors: vec![Ctor { name: "__Tuple".into(), fields: vec![a, b], labels: None }],
            src: None,
            recursive: false,
        }))
    }
}

/// declaration text of a user type; `field_src[c][j]` is how field j of constructor c is written
fn adt_src(head: &str, ctors: &[Ctor], field_src: &[Vec<String>]) -> String {
    let mut s = format!("type {} {{\n", head);
    for (c, fs) in ctors.iter().zip(field_src) {
        s.push_str("  ");
        s.push_str(&c.name);
        if !fs.is_empty() {
            match &c.labels {
                Some(ls) => {
                    s.push_str(" { ");
                    s.push_str(
                        &ls.iter().zip(fs).map(|(l, f)| format!("{}: {}", l, f)).collect::<Vec<_>>().join(", "),
                    );
                    s.push_str(" }");
                }
                None => {
                    s.push('(');
                    s.push_str(&fs.join(", "));
                    s.push(')');
                }
            }
        }
        s.push('\n');
    }
    s.push_str("}\n");
    s
}

// ───────────────────────────── rendering ─────────────────────────────

struct Rendered {
    src: String,
    /// byte range of each clause pattern
    spans: Vec<(usize, usize)>,
    feats: BTreeSet<&'static str>,
}

struct Style<'a> {
    sig: &'a Sig,
    rng: Prng,
    nvar: usize,
    used: BTreeSet<String>,
    feats: BTreeSet<&'static str>,
}

impl<'a> Style<'a> {
    fn fresh(&mut self) -> String {
        loop {
            let v = format!("v{}", self.nvar);
            self.nvar += 1;
            if self.used.insert(v.clone()) {
                return v;
            }
        }
    }
    fn wild(&mut self) -> String {
        if self.rng.chance(1, 2) {
            "_".into()
        } else {
            self.fresh()
        }
    }
    fn pat(&mut self, p: &P) -> String {
        let base = self.pat0(p);
        if !matches!(p, P::W) && self.rng.chance(1, 10) {
            self.feats.insert("as");
            let v = self.fresh();
            format!("{} as {}", base, v)
        } else {
            base
        }
    }
    fn pat0(&mut self, p: &P) -> String {
        match p {
            P::W => self.wild(),
            P::I(n) => {
                self.feats.insert("literal");
                n.to_string()
            }
            P::B(b) => {
                self.feats.insert("literal");
                self.feats.insert("bytes-literal");
                format!("#\"{}\"", hex::encode(b))
            }
            P::K(t, ci, args) => {
                let d = &self.sig[*t];
                match d.kind {
                    Kind::List => {
                        let mut elems = vec![];
                        let mut cur = p;
                        let tail;
                        loop {
                            match cur {
                                P::K(_, 0, a) => {
                                    elems.push(self.pat(&a[0]));
                                    cur = &a[1];
                                }
                                P::K(_, _, _) => {
                                    tail = None;
                                    break;
                                }
                                _ => {
                                    self.feats.insert("list-tail");
                                    tail = Some(if self.rng.chance(1, 2) {
                                        "..".to_string()
                                    } else {
                                        format!("..{}", self.fresh())
                                    });
                                    break;
                                }
                            }
                        }
                        if let Some(t) = tail {
                            elems.push(t);
                        }
                        format!("[{}]", elems.join(", "))
                    }
                    Kind::Tuple => {
                        let a: Vec<String> = args.iter().map(|x| self.pat(x)).collect();
                        format!("({})", a.join(", "))
                    }
                    Kind::Pair => {
                        let a: Vec<String> = args.iter().map(|x| self.pat(x)).collect();
                        format!("Pair({})", a.join(", "))
                    }
                    _ => {
                        let c = &d.ctors[*ci];
                        if args.is_empty() {
                            return c.name.clone();
                        }
                        let nwild = args.iter().filter(|a| matches!(a, P::W)).count();
                        match &c.labels {
                            Some(ls) if self.rng.chance(2, 3) => {
                                self.feats.insert("record-labels");
                                // which wildcard fields to hide behind `..`
                                let spread = nwild > 0 && self.rng.chance(1, 2);
                                let mut items: Vec<String> = vec![];
                                let mut hidden = 0;
                                let mut order: Vec<usize> = (0..args.len()).collect();
                                if self.rng.chance(1, 3) {
                                    shuffle(&mut order, &mut self.rng);
                                    self.feats.insert("record-reordered");
                                }
                                for (k, &j) in order.iter().enumerate() {
                                    let a = &args[j];
                                    if matches!(a, P::W) && spread {
                                        // hide at least one; the last wildcard is hidden if none was yet
                                        let last_wild = !order[k + 1..].iter().any(|&j2| matches!(args[j2], P::W));
                                        if self.rng.chance(2, 3) || (hidden == 0 && last_wild) {
                                            hidden += 1;
                                            continue;
                                        }
                                    }
                                    if matches!(a, P::W) && !self.used.contains(&ls[j]) && self.rng.chance(1, 2) {
                                        self.used.insert(ls[j].clone());
                                        self.feats.insert("record-pun");
                                        items.push(ls[j].clone());
                                    } else {
                                        let s = self.pat(a);
                                        items.push(format!("{}: {}", ls[j], s));
                                    }
                                }
                                if hidden > 0 {
                                    self.feats.insert("record-spread");
                                    items.push("..".into());
                                }
                                format!("{} {{ {} }}", c.name, items.join(", "))
                            }
                            _ => {
                                // positional; trailing wildcards may hide behind `..`
                                let trailing = args.iter().rev().take_while(|a| matches!(a, P::W)).count();
                                let hide = if trailing > 0 && self.rng.chance(1, 4) {
                                    1 + self.rng.below(trailing)
                                } else {
                                    0
                                };
                                let mut items: Vec<String> =
                                    args[..args.len() - hide].iter().map(|x| self.pat(x)).collect();
                                if hide > 0 {
                                    self.feats.insert("positional-spread");
                                    items.push("..".into());
                                }
                                format!("{}({})", c.name, items.join(", "))
                            }
                        }
                    }
                }
            }
        }
    }
}

fn shuffle<T>(xs: &mut [T], rng: &mut Prng) {
    for i in (1..xs.len()).rev() {
        let j = rng.below(i + 1);
        xs.swap(i, j);
    }
}

fn render(case: &Case) -> Rendered {
    let mut src = String::new();
    let mut seen = BTreeSet::new();
    let mut feats = BTreeSet::new();
    for d in &case.sig {
        if let Some(s) = &d.src {
            if seen.insert(s.clone()) {
                src.push_str(s);
                src.push('\n');
            }
        }
    }
    // features of the types reachable from the scrutinee
    let mut reach = BTreeSet::new();
    let mut todo = vec![case.scrut];
    while let Some(t) = todo.pop() {
        if let Ty::Data(i) = t {
            if reach.insert(i) {
                for c in &case.sig[i].ctors {
                    todo.extend(c.fields.iter().cloned());
                }
            }
        }
    }
    for &i in &reach {
        let d = &case.sig[i];
        if d.kind == Kind::Generic {
            feats.insert("generic");
        }
        if d.recursive && d.kind != Kind::List {
            feats.insert("recursive");
        }
    }
    let mut st = Style {
        sig: &case.sig,
        rng: Prng::new(case.style_seed),
        nvar: 0,
        used: BTreeSet::new(),
        feats: BTreeSet::new(),
    };
    let mut spans = vec![];
    src.push_str(&format!("fn f(x: {}) -> Int {{\n", texpr(&case.sig, case.scrut)));
    if case.is_let {
        feats.insert("let");
        let p = st.pat(&case.clauses[0]);
        src.push_str("  let ");
        spans.push((src.len(), src.len() + p.len()));
        src.push_str(&p);
        src.push_str(" = x\n  0\n}\n");
    } else {
        src.push_str("  when x is {\n");
        for (i, c) in case.clauses.iter().enumerate() {
            st.used.clear();
            let p = st.pat(c);
            src.push_str("    ");
            spans.push((src.len(), src.len() + p.len()));
            src.push_str(&p);
            src.push_str(&format!(" -> {}\n", i));
        }
        src.push_str("  }\n}\n");
    }
    feats.extend(st.feats.iter());
    Rendered { src, spans, feats }
}

// ───────────────────────────── wire ─────────────────────────────

fn ranks(sig: &Sig) -> BTreeMap<String, usize> {
    let names: BTreeSet<String> = sig.iter().flat_map(|d| d.ctors.iter().map(|c| c.name.clone())).collect();
    names.into_iter().enumerate().map(|(i, n)| (n, i)).collect()
}

fn wire_ty(t: Ty) -> String {
    match t {
        Ty::Int => "I".into(),
        Ty::Bytes => "B".into(),
        Ty::Data(i) => format!("(T {})", i),
    }
}

fn wire_sig(sig: &Sig, rk: &BTreeMap<String, usize>) -> String {
    let decls: Vec<String> = sig
        .iter()
        .map(|d| {
            let cs: Vec<String> = d
                .ctors
                .iter()
                .map(|c| {
                    let mut s = format!("({}", rk[&c.name]);
                    for f in &c.fields {
                        s.push(' ');
                        s.push_str(&wire_ty(*f));
                    }
                    s.push(')');
                    s
                })
                .collect();
            format!("({})", cs.join(" "))
        })
        .collect();
    format!("({})", decls.join(" "))
}

fn wire_pat(sig: &Sig, rk: &BTreeMap<String, usize>, p: &P) -> String {
    match p {
        P::W => "_".into(),
        P::I(n) => format!("(i {})", n),
        P::B(b) => format!("(b #{})", hex::encode(b)),
        P::K(t, ci, args) => {
            let mut s = format!("(K {} {}", rk[&sig[*t].ctors[*ci].name], t);
            for a in args {
                s.push(' ');
                s.push_str(&wire_pat(sig, rk, a));
            }
            s.push(')');
            s
        }
    }
}

fn wire_pats(sig: &Sig, rk: &BTreeMap<String, usize>, ps: &[P]) -> String {
    format!("({})", ps.iter().map(|p| wire_pat(sig, rk, p)).collect::<Vec<_>>().join(" "))
}

fn wire_val(sig: &Sig, rk: &BTreeMap<String, usize>, ty: Ty, v: &V) -> String {
    match (v, ty) {
        (V::I(n), _) => format!("(i {})", n),
        (V::B(b), _) => format!("(b #{})", hex::encode(b)),
        (V::K(ci, args), Ty::Data(t)) => {
            let c = &sig[t].ctors[*ci];
            let mut s = format!("(V {}", rk[&c.name]);
            for (a, f) in args.iter().zip(&c.fields) {
                s.push(' ');
                s.push_str(&wire_val(sig, rk, *f, a));
            }
            s.push(')');
            s
        }
        (V::K(..), _) => "?".into(),
    }
}

fn request(case: &Case) -> String {
    let rk = ranks(&case.sig);
    format!("match check {} {}", wire_sig(&case.sig, &rk), wire_pats(&case.sig, &rk, &case.clauses))
}

// s-expressions of the model's reply
#[derive(Debug, Clone)]
enum Sx {
    A(String),
    L(Vec<Sx>),
}

fn sx_parse(s: &str) -> Option<Sx> {
    fn go(b: &[u8], i: &mut usize) -> Option<Sx> {
        while *i < b.len() && b[*i] == b' ' {
            *i += 1;
        }
        if *i >= b.len() {
            return None;
        }
        if b[*i] == b'(' {
            *i += 1;
            let mut xs = vec![];
            loop {
                while *i < b.len() && b[*i] == b' ' {
                    *i += 1;
                }
                if *i >= b.len() {
                    return None;
                }
                if b[*i] == b')' {
                    *i += 1;
                    return Some(Sx::L(xs));
                }
                xs.push(go(b, i)?);
            }
        } else if b[*i] == b')' {
            None
        } else {
            let st = *i;
            while *i < b.len() && b[*i] != b' ' && b[*i] != b'(' && b[*i] != b')' {
                *i += 1;
            }
            Some(Sx::A(String::from_utf8_lossy(&b[st..*i]).into_owned()))
        }
    }
    let b = s.as_bytes();
    let mut i = 0;
    let r = go(b, &mut i)?;
    while i < b.len() && b[i] == b' ' {
        i += 1;
    }
    if i == b.len() {
        Some(r)
    } else {
        None
    }
}

/// type-directed reading of a model pattern (the reply's type number is not trusted: two
/// instances with equal alts print the same)
fn model_pat(sig: &Sig, rk: &BTreeMap<String, usize>, ty: Ty, s: &Sx) -> Result<P, String> {
    match s {
        Sx::A(a) if a == "_" => Ok(P::W),
        Sx::L(xs) => match (xs.first(), ty) {
            (Some(Sx::A(k)), Ty::Int) if k == "i" && xs.len() == 2 => match &xs[1] {
                Sx::A(n) => n.parse::<i128>().map(P::I).map_err(|e| e.to_string()),
                _ => Err("bad int".into()),
            },
            (Some(Sx::A(k)), Ty::Bytes) if k == "b" && xs.len() == 2 => match &xs[1] {
                Sx::A(h) => hex::decode(h.trim_start_matches('#')).map(P::B).map_err(|e| e.to_string()),
                _ => Err("bad bytes".into()),
            },
            (Some(Sx::A(k)), Ty::Data(t)) if k == "K" && xs.len() >= 3 => {
                let c: usize = match &xs[1] {
                    Sx::A(c) => c.parse().map_err(|_| "bad ctor number".to_string())?,
                    _ => return Err("bad ctor number".into()),
                };
                let d = &sig[t];
                let ci = d
                    .ctors
                    .iter()
                    .position(|x| rk[&x.name] == c)
                    .ok_or_else(|| format!("constructor {} not in type {}", c, d.texpr))?;
                let args = &xs[3..];
                if args.len() != d.ctors[ci].fields.len() {
                    return Err(format!("arity of {} in model reply", d.ctors[ci].name));
                }
                let mut ps = vec![];
                for (a, f) in args.iter().zip(&d.ctors[ci].fields) {
                    ps.push(model_pat(sig, rk, *f, a)?);
                }
                Ok(P::K(t, ci, ps))
            }
            _ => Err(format!("model pattern does not fit type {}", texpr(sig, ty))),
        },
        _ => Err("bad model pattern".into()),
    }
}

// ───────────────────────────── the real checker ─────────────────────────────

#[derive(Clone, Debug, PartialEq)]
enum Real {
    Ok,
    NotExh(Vec<String>),
    /// byte offset of the clause reported redundant
    Redundant(usize),
    Panic(String),
    Other(String),
}

fn run_real(src: &str) -> Real {
    let r = guarded(AssertUnwindSafe(|| {
        let kind = ModuleKind::Lib;
        let (mut ast, _) = match parser::module(src, kind) {
            Ok(x) => x,
            Err(_) => return Real::Other("parse".into()),
        };
        ast.name = "my_module".to_string();
        let id_gen = IdGenerator::new();
        let mut warnings = vec![];
        let mut module_types = HashMap::new();
        module_types.insert(builtins::PRELUDE.to_string(), builtins::prelude(&id_gen));
        module_types.insert(builtins::BUILTIN.to_string(), builtins::plutus(&id_gen));
        match ast.infer(
            &id_gen,
            kind,
            "test/project",
            &module_types,
            Tracing::All(TraceLevel::Verbose),
            &mut warnings,
            None,
        ) {
            Ok(_) => Real::Ok,
            Err(Error::NotExhaustivePatternMatch { unmatched, .. }) => Real::NotExh(unmatched),
            Err(Error::RedundantMatchClause { redundant, .. }) => Real::Redundant(redundant.start),
            Err(e) => {
                let d = format!("{:?}", e);
                let v: String = d.chars().take_while(|c| c.is_alphanumeric()).collect();
                Real::Other(v)
            }
        }
    }));
    match r {
        Ok(x) => x,
        Err(msg) => Real::Panic(msg),
    }
}

// ───────────────────────────── parser of `Pattern::pretty` ─────────────────────────────

fn split_top(s: &str) -> Vec<&str> {
    let mut out = vec![];
    let mut depth = 0i32;
    let mut st = 0;
    for (i, ch) in s.char_indices() {
        match ch {
            '(' | '[' | '{' => depth += 1,
            ')' | ']' | '}' => depth -= 1,
            ',' if depth == 0 => {
                out.push(s[st..i].trim());
                st = i + 1;
            }
            _ => {}
        }
    }
    out.push(s[st..].trim());
    out
}

/// `explicit_nil` is set when the printer's `[p, q, []]` form (nil shown as a last item) was met
fn parse_pretty(sig: &Sig, ty: Ty, s: &str, explicit_nil: &mut bool) -> Result<P, String> {
    let s = s.trim();
    if s == "_" {
        return Ok(P::W);
    }
    let t = match ty {
        Ty::Data(t) => t,
        _ => return Err(format!("non-wildcard `{}` at a literal type", s)),
    };
    let d = &sig[t];
    let inner = |open: char, close: char| -> Result<&str, String> {
        if s.starts_with(open) && s.ends_with(close) && s.len() >= 2 {
            Ok(&s[1..s.len() - 1])
        } else {
            Err(format!("expected {}…{} for type {} but got `{}`", open, close, d.texpr, s))
        }
    };
    match d.kind {
        Kind::Tuple | Kind::Pair => {
            let items = split_top(inner('(', ')')?);
            let fs = &d.ctors[0].fields;
            if items.len() != fs.len() {
                return Err(format!("tuple arity in `{}`", s));
            }
            let mut ps = vec![];
            for (it, f) in items.iter().zip(fs) {
                ps.push(parse_pretty(sig, *f, it, explicit_nil)?);
            }
            Ok(P::K(t, 0, ps))
        }
        Kind::List => {
            let body = inner('[', ']')?;
            if body.trim().is_empty() {
                return Ok(P::K(t, 1, vec![]));
            }
            let items = split_top(body);
            let n = items.len();
            let elem = d.ctors[0].fields[0];
            let (elems, mut tail) = if items[n - 1] == ".." {
                (&items[..n - 1], P::W)
            } else if n == 1 {
                (&items[..], P::K(t, 1, vec![]))
            } else if items[n - 1] == "[]" {
                *explicit_nil = true;
                (&items[..n - 1], P::K(t, 1, vec![]))
            } else {
                return Err(format!("list pattern `{}`: {} items without a terminator", s, n));
            };
            if elems.is_empty() {
                return Err(format!("list pattern `{}` without elements", s));
            }
            for it in elems.iter().rev() {
                let h = parse_pretty(sig, elem, it, explicit_nil)?;
                tail = P::K(t, 0, vec![h, tail]);
            }
            Ok(tail)
        }
        _ => {
            let name_end = s.find(|c: char| !(c.is_alphanumeric() || c == '_')).unwrap_or(s.len());
            let name = &s[..name_end];
            let rest = s[name_end..].trim();
            let ci = d
                .ctors
                .iter()
                .position(|c| c.name == name)
                .ok_or_else(|| format!("constructor `{}` is not in type {}", name, d.texpr))?;
            let c = &d.ctors[ci];
            if rest.is_empty() {
                if !c.fields.is_empty() {
                    return Err(format!("`{}` printed without its {} fields", name, c.fields.len()));
                }
                return Ok(P::K(t, ci, vec![]));
            }
            if rest.starts_with('(') && rest.ends_with(')') {
                if c.labels.is_some() {
                    return Err(format!("record constructor printed positionally: `{}`", s));
                }
                let items = split_top(&rest[1..rest.len() - 1]);
                if items.len() != c.fields.len() {
                    return Err(format!("arity in `{}`", s));
                }
                let mut ps = vec![];
                for (it, f) in items.iter().zip(&c.fields) {
                    ps.push(parse_pretty(sig, *f, it, explicit_nil)?);
                }
                return Ok(P::K(t, ci, ps));
            }
            if rest.starts_with('{') && rest.ends_with('}') {
                let ls = c.labels.as_ref().ok_or_else(|| format!("`{}` is not a record constructor", name))?;
                let items = split_top(&rest[1..rest.len() - 1]);
                if items.len() != ls.len() {
                    return Err(format!("field count in `{}`", s));
                }
                let mut ps = vec![];
                for ((it, l), f) in items.iter().zip(ls).zip(&c.fields) {
                    if it == l {
                        ps.push(P::W);
                    } else if let Some(r) = it.strip_prefix(&format!("{}:", l)) {
                        ps.push(parse_pretty(sig, *f, r, explicit_nil)?);
                    } else {
                        return Err(format!("field `{}` expected in `{}`", l, s));
                    }
                }
                return Ok(P::K(t, ci, ps));
            }
            Err(format!("cannot read `{}`", s))
        }
    }
}

// ───────────────────────────── brute force ─────────────────────────────

fn matches(p: &P, v: &V) -> bool {
    match (p, v) {
        (P::W, _) => true,
        (P::I(a), V::I(b)) => a == b,
        (P::B(a), V::B(b)) => a == b,
        (P::K(_, c, ps), V::K(d, vs)) => c == d && ps.len() == vs.len() && ps.iter().zip(vs).all(|(p, v)| matches(p, v)),
        _ => false,
    }
}

fn first_match(cs: &[P], v: &V) -> Option<usize> {
    cs.iter().position(|c| matches(c, v))
}

fn pat_depth(p: &P) -> usize {
    match p {
        P::K(_, _, a) => 1 + a.iter().map(pat_depth).max().unwrap_or(0),
        _ => 0,
    }
}

fn has_literal(p: &P) -> bool {
    match p {
        P::I(_) | P::B(_) => true,
        P::K(_, _, a) => a.iter().any(has_literal),
        P::W => false,
    }
}

fn collect_lits(p: &P, ints: &mut BTreeSet<i128>, bytes: &mut BTreeSet<Vec<u8>>) {
    match p {
        P::I(n) => {
            ints.insert(*n);
        }
        P::B(b) => {
            bytes.insert(b.clone());
        }
        P::K(_, _, a) => a.iter().for_each(|x| collect_lits(x, ints, bytes)),
        P::W => {}
    }
}

const CAP: u64 = 20000;

struct Enum<'a> {
    sig: &'a Sig,
    ints: Vec<i128>,
    bytes: Vec<Vec<u8>>,
    fresh_int: i128,
    fresh_bytes: Vec<u8>,
    /// a minimal-depth value of each declared type (None: uninhabited)
    smallest: Vec<Option<V>>,
}

impl<'a> Enum<'a> {
    fn new(sig: &'a Sig, pats: &[&P]) -> Self {
        let mut ints = BTreeSet::new();
        let mut bytes = BTreeSet::new();
        for p in pats {
            collect_lits(p, &mut ints, &mut bytes);
        }
        let mut fresh_int = 7777;
        while ints.contains(&fresh_int) {
            fresh_int += 1;
        }
        let mut fresh_bytes = vec![0xab];
        while bytes.contains(&fresh_bytes) {
            fresh_bytes.push(0xcd);
        }
        let mut iv: Vec<i128> = ints.into_iter().collect();
        iv.push(fresh_int);
        let mut bv: Vec<Vec<u8>> = bytes.into_iter().collect();
        bv.push(fresh_bytes.clone());
        // smallest values: Bellman-Ford style fixpoint on depth
        let n = sig.len();
        let mut best: Vec<Option<(usize, V)>> = vec![None; n];
        for _ in 0..=n {
            let mut changed = false;
            for t in 0..n {
                for (ci, c) in sig[t].ctors.iter().enumerate() {
                    let mut depth = 1;
                    let mut args = vec![];
                    let mut ok = true;
                    for f in &c.fields {
                        match f {
                            Ty::Int => args.push(V::I(fresh_int)),
                            Ty::Bytes => args.push(V::B(fresh_bytes.clone())),
                            Ty::Data(u) => match &best[*u] {
                                Some((d, v)) => {
                                    depth = depth.max(1 + d);
                                    args.push(v.clone());
                                }
                                None => {
                                    ok = false;
                                    break;
                                }
                            },
                        }
                    }
                    if ok && best[t].as_ref().map_or(true, |(d, _)| depth < *d) {
                        best[t] = Some((depth, V::K(ci, args)));
                        changed = true;
                    }
                }
            }
            if !changed {
                break;
            }
        }
        Enum {
            sig,
            ints: iv,
            bytes: bv,
            fresh_int,
            fresh_bytes,
            smallest: best.into_iter().map(|b| b.map(|(_, v)| v)).collect(),
        }
    }

    fn inhabited(&self, ty: Ty) -> bool {
        match ty {
            Ty::Data(t) => self.smallest[t].is_some(),
            _ => true,
        }
    }

    /// number of values `values(ty, d)` would return (saturating)
    fn count(&self, ty: Ty, d: usize, memo: &mut HashMap<(usize, usize), u64>) -> u64 {
        match ty {
            Ty::Int => self.ints.len() as u64,
            Ty::Bytes => self.bytes.len() as u64,
            Ty::Data(t) => {
                if self.smallest[t].is_none() {
                    return 0;
                }
                if d == 0 {
                    return 1;
                }
                if let Some(&c) = memo.get(&(t, d)) {
                    return c;
                }
                let mut total: u64 = 0;
                for c in &self.sig[t].ctors {
                    let mut prod: u64 = 1;
                    for f in &c.fields {
                        prod = prod.saturating_mul(self.count(*f, d - 1, memo));
                        if prod > (1 << 40) {
                            prod = 1 << 40;
                        }
                    }
                    total = total.saturating_add(prod);
                }
                memo.insert((t, d), total);
                total
            }
        }
    }

    /// all values with constructors expanded down to depth d, positions below filled with the
    /// smallest value of their type
    fn values(&self, ty: Ty, d: usize) -> Vec<V> {
        match ty {
            Ty::Int => self.ints.iter().map(|i| V::I(*i)).collect(),
            Ty::Bytes => self.bytes.iter().map(|b| V::B(b.clone())).collect(),
            Ty::Data(t) => {
                let sm = match &self.smallest[t] {
                    Some(v) => v,
                    None => return vec![],
                };
                if d == 0 {
                    return vec![sm.clone()];
                }
                let mut out = vec![];
                for (ci, c) in self.sig[t].ctors.iter().enumerate() {
                    let parts: Vec<Vec<V>> = c.fields.iter().map(|f| self.values(*f, d - 1)).collect();
                    for combo in product(&parts, usize::MAX) {
                        out.push(V::K(ci, combo));
                    }
                }
                out
            }
        }
    }

    /// pattern-guided representatives: constructors are expanded only where some pattern looks;
    /// every value is indistinguishable (by the given patterns) from one of the results.
    /// `budget` bounds the size; `over` is set when it was hit.
    fn guided(&self, ty: Ty, pats: &[&P], budget: usize, over: &mut bool) -> Vec<V> {
        let pats: Vec<&P> = pats.iter().cloned().filter(|p| !matches!(p, P::W)).collect();
        match ty {
            Ty::Int => {
                let mut s: BTreeSet<i128> = pats.iter().filter_map(|p| if let P::I(n) = p { Some(*n) } else { None }).collect();
                s.insert(self.fresh_int);
                s.into_iter().map(V::I).collect()
            }
            Ty::Bytes => {
                let mut s: BTreeSet<Vec<u8>> =
                    pats.iter().filter_map(|p| if let P::B(b) = p { Some(b.clone()) } else { None }).collect();
                s.insert(self.fresh_bytes.clone());
                s.into_iter().map(V::B).collect()
            }
            Ty::Data(t) => {
                let sm = match &self.smallest[t] {
                    Some(v) => v,
                    None => return vec![],
                };
                if pats.is_empty() {
                    return vec![sm.clone()];
                }
                let mut out = vec![];
                for (ci, c) in self.sig[t].ctors.iter().enumerate() {
                    let parts: Vec<Vec<V>> = c
                        .fields
                        .iter()
                        .enumerate()
                        .map(|(j, f)| {
                            let sub: Vec<&P> = pats
                                .iter()
                                .filter_map(|p| match p {
                                    P::K(_, c2, a) if *c2 == ci && a.len() == c.fields.len() => Some(&a[j]),
                                    _ => None,
                                })
                                .collect();
                            self.guided(*f, &sub, budget, over)
                        })
                        .collect();
                    let mut size: usize = 1;
                    for p in &parts {
                        size = size.saturating_mul(p.len());
                    }
                    if size > budget {
                        *over = true;
                    }
                    for combo in product(&parts, budget) {
                        out.push(V::K(ci, combo));
                    }
                    if out.len() > budget {
                        *over = true;
                        out.truncate(budget);
                    }
                }
                out
            }
        }
    }
}

/// cartesian product in lexicographic order (at most `limit` results)
fn product(parts: &[Vec<V>], limit: usize) -> Vec<Vec<V>> {
    let mut out: Vec<Vec<V>> = vec![vec![]];
    for p in parts {
        let mut next = Vec::with_capacity(out.len().saturating_mul(p.len()).min(1 << 16));
        'outer: for pre in &out {
            for v in p {
                let mut x = pre.clone();
                x.push(v.clone());
                next.push(x);
                if next.len() >= limit {
                    break 'outer;
                }
            }
        }
        out = next;
    }
    out
}

fn show_val(sig: &Sig, ty: Ty, v: &V) -> String {
    match (v, ty) {
        (V::I(n), _) => n.to_string(),
        (V::B(b), _) => format!("#\"{}\"", hex::encode(b)),
        (V::K(ci, args), Ty::Data(t)) => {
            let c = &sig[t].ctors[*ci];
            if args.is_empty() {
                c.name.clone()
            } else {
                format!(
                    "{}({})",
                    c.name,
                    args.iter().zip(&c.fields).map(|(a, f)| show_val(sig, *f, a)).collect::<Vec<_>>().join(", ")
                )
            }
        }
        _ => "?".into(),
    }
}

// ───────────────────────────── per-case evaluation ─────────────────────────────

#[derive(Default)]
struct Outcome {
    real: String,
    /// structured real answer for the comparison with the model
    real_cmp: Option<String>,
    counts: Vec<String>,
    /// (key prefix, what, detail)
    failures: Vec<(String, String, serde_json::Value)>,
    skip: bool,
    /// a few enumerated values (wire form) with the brute-force first-match index: the harness's
    /// matcher (which judges the real checker) is itself compared with the Lean spec
    probes: Vec<(String, Option<usize>)>,
}

/// index of the clause whose pattern text contains byte offset `at`
fn clause_at(spans: &[(usize, usize)], at: usize) -> Option<(usize, bool)> {
    spans.iter().position(|(a, b)| *a <= at && at < *b).map(|i| (i, spans[i].0 == at))
}

fn evaluate(case: &Case, rd: &Rendered) -> Outcome {
    let mut o = Outcome::default();
    let real = run_real(&rd.src);
    let rk = ranks(&case.sig);
    let sig = &case.sig;
    // structured real answer
    let mut missing: Vec<P> = vec![];
    let mut red: Option<usize> = None;
    match &real {
        Real::Ok => {
            o.real = "ok".into();
            o.real_cmp = Some("ok".into());
        }
        Real::NotExh(strs) => {
            o.real = format!("notexhaustive {:?}", strs);
            let mut explicit_nil = false;
            for s in strs {
                match parse_pretty(sig, case.scrut, s, &mut explicit_nil) {
                    Ok(p) => missing.push(p),
                    Err(e) => {
                        o.counts.push("unparsable-unmatched".into());
                        o.failures.push((
                            "unmatched-unreadable".into(),
                            "a pattern printed in `unmatched` is not a pattern of the scrutinee type".into(),
                            json!({"printed": s, "why": e}),
                        ));
                        o.real_cmp = Some(format!("notexhaustive <unreadable {:?}>", strs));
                        return o;
                    }
                }
            }
            if explicit_nil {
                o.counts.push("pretty-explicit-nil-item".into());
            }
            o.real_cmp = Some(format!("notexhaustive {}", wire_pats(sig, &rk, &missing)));
        }
        Real::Redundant(at) => match clause_at(&rd.spans, *at) {
            Some((i, exact)) => {
                if !exact {
                    o.counts.push("redundant-span-inside-pattern".into());
                }
                red = Some(i);
                o.real = format!("redundant {}", i);
                o.real_cmp = Some(o.real.clone());
            }
            None => {
                o.real = format!("redundant @{}", at);
                o.real_cmp = Some(o.real.clone());
                o.failures.push((
                    "redundant-span-outside".into(),
                    "the span reported redundant is not inside any clause pattern".into(),
                    json!({"offset": at, "spans": rd.spans}),
                ));
                return o;
            }
        },
        Real::Panic(m) => {
            o.real = format!("panic {}", m);
            o.real_cmp = Some("panic".into());
            o.failures.push(("checker-panic".into(), "the type checker panicked".into(), json!({"message": m})));
            return o;
        }
        Real::Other(v) => {
            o.real = format!("other-error:{}", v);
            o.counts.push(o.real.clone());
            o.skip = true;
            return o;
        }
    }
    // brute force
    let mut all: Vec<&P> = case.clauses.iter().collect();
    all.extend(missing.iter());
    let en = Enum::new(sig, &all);
    if !en.inhabited(case.scrut) {
        o.counts.push("scrutinee-uninhabited".into());
        if std::env::var("C07_DEBUG").is_ok() { eprintln!("UNINHABITED {}", rd.src.replace('\n', " | ")); }
        return o;
    }
    let depth = all.iter().map(|p| pat_depth(p)).max().unwrap_or(0) + 1;
    let mut memo = HashMap::new();
    let n = en.count(case.scrut, depth, &mut memo);
    let mut conclusive = true;
    let values = if n <= CAP {
        o.counts.push("enum:blind".into());
        en.values(case.scrut, depth)
    } else {
        o.counts.push("enum-capped".into());
        let mut over = false;
        let v = en.guided(case.scrut, &all, CAP as usize, &mut over);
        if over {
            conclusive = false;
            o.counts.push("enum:guided-capped-inconclusive".into());
        } else {
            o.counts.push("enum:guided".into());
        }
        v
    };
    o.counts.push(format!("values:{}", bucket(values.len())));
    let firsts: Vec<Option<usize>> = values.iter().map(|v| first_match(&case.clauses, v)).collect();
    let unmatched: Vec<usize> = (0..values.len()).filter(|i| firsts[*i].is_none()).collect();
    if !values.is_empty() {
        let n = values.len();
        let mut idx = vec![0, n / 3, (2 * n) / 3, n - 1];
        idx.dedup();
        for i in idx {
            o.probes.push((wire_val(sig, &rk, case.scrut, &values[i]), firsts[i]));
        }
    }
    let show = |i: usize| show_val(sig, case.scrut, &values[i]);
    match &real {
        Real::Ok => {
            if let Some(&i) = unmatched.first() {
                o.failures.push((
                    "accepted-nonexhaustive".into(),
                    "the checker accepted the clauses but a value is matched by none".into(),
                    json!({"value": show(i)}),
                ));
            }
            for c in 0..case.clauses.len() {
                if !firsts.iter().any(|f| *f == Some(c)) {
                    o.counts.push(if conclusive {
                        "accepted-clause-without-witness".into()
                    } else {
                        "accepted-clause-without-witness(inconclusive)".into()
                    });
                }
            }
        }
        Real::NotExh(strs) => {
            if unmatched.is_empty() {
                if conclusive {
                    o.failures.push((
                        "rejected-exhaustive".into(),
                        "the checker says not exhaustive but every enumerated value is matched".into(),
                        json!({"unmatched": strs, "values": values.len()}),
                    ));
                } else {
                    o.counts.push("inconclusive:rejected-exhaustive".into());
                }
            }
            let no_lit = !case.clauses.iter().any(has_literal);
            for (k, p) in missing.iter().enumerate() {
                let hits: Vec<usize> = (0..values.len()).filter(|i| matches(p, &values[*i])).collect();
                let witness = hits.iter().find(|i| firsts[**i].is_none());
                if witness.is_none() {
                    if conclusive {
                        o.failures.push((
                            "missing-pattern-is-matched".into(),
                            "no value matching a reported missing pattern is unmatched by the clauses".into(),
                            json!({"pattern": strs[k], "values-matching-it": hits.len()}),
                        ));
                    } else {
                        o.counts.push("inconclusive:missing-pattern-is-matched".into());
                    }
                }
                if no_lit {
                    if let Some(i) = hits.iter().find(|i| firsts[**i].is_some()) {
                        o.failures.push((
                            "missing-pattern-partly-matched".into(),
                            "a value matching a reported missing pattern is matched by a clause".into(),
                            json!({"pattern": strs[k], "value": show(*i), "clause": firsts[*i]}),
                        ));
                    }
                }
            }
        }
        Real::Redundant(_) => {
            let r = red.unwrap();
            if let Some(i) = (0..values.len()).find(|i| firsts[*i] == Some(r)) {
                o.failures.push((
                    "redundant-but-reachable".into(),
                    "the clause reported redundant is the first match of a value".into(),
                    json!({"clause": r, "value": show(i)}),
                ));
            }
        }
        _ => {}
    }
    o
}

fn bucket(n: usize) -> &'static str {
    match n {
        0 => "0",
        1..=9 => "1-9",
        10..=99 => "10-99",
        100..=999 => "100-999",
        1000..=9999 => "1000-9999",
        _ => ">=10000",
    }
}

// ───────────────────────────── exhaustive family ─────────────────────────────

/// field of a family constructor
#[derive(Clone, Copy, PartialEq, Debug)]
enum F {
    B,
    T,
    U,
}

/// the fixed list of T signatures of the family (constructor field lists, declaration order)
fn family_sigs() -> Vec<Vec<Vec<F>>> {
    use F::*;
    vec![
        vec![vec![]],
        vec![vec![B]],
        vec![vec![U]],
        vec![vec![B, U]],
        vec![vec![U, U]],
        vec![vec![], vec![]],
        vec![vec![B], vec![]],
        vec![vec![T], vec![]],
        vec![vec![U], vec![B]],
        vec![vec![B, T], vec![]],
        vec![vec![T, T], vec![]],
        vec![vec![], vec![U, T]],
        vec![vec![T, U], vec![B]],
        vec![vec![T, B], vec![U, T]],
        vec![vec![], vec![], vec![]],
        vec![vec![B], vec![], vec![T]],
        vec![vec![T, T], vec![], vec![B]],
        vec![vec![B, T], vec![U], vec![]],
        vec![vec![T, U], vec![T], vec![B, B]],
        vec![vec![U, T], vec![T, B], vec![]],
        vec![vec![T, T], vec![T, T], vec![]],
    ]
}

const FAMILY_T_NAMES: [&str; 3] = ["Q", "D", "X"];

/// signature of a family member: type 0 = T, type 1 = U { Uz  Ua(Bool) }, type 2 = Bool
fn family_sig(shape: &[Vec<F>]) -> Sig {
    let fty = |f: &F| match f {
        F::T => Ty::Data(0),
        F::U => Ty::Data(1),
        F::B => Ty::Data(2),
    };
    let fsrc = |f: &F| match f {
        F::T => "T".to_string(),
        F::U => "U".to_string(),
        F::B => "Bool".to_string(),
    };
    let t_ctors: Vec<Ctor> = shape
        .iter()
        .enumerate()
        .map(|(i, fs)| Ctor { name: FAMILY_T_NAMES[i].into(), fields: fs.iter().map(fty).collect(), labels: None })
        .collect();
    let t_src = adt_src("T", &t_ctors, &shape.iter().map(|fs| fs.iter().map(fsrc).collect()).collect::<Vec<_>>());
    let u_ctors = vec![
        Ctor { name: "Uz".into(), fields: vec![], labels: None },
        Ctor { name: "Ua".into(), fields: vec![Ty::Data(2)], labels: None },
    ];
    let u_src = adt_src("U", &u_ctors, &[vec![], vec!["Bool".into()]]);
    let recursive = shape.iter().any(|fs| fs.contains(&F::T));
    let mut sb = SigB::new();
    sb.push(Decl { kind: Kind::Adt, texpr: "T".into(), ctors: t_ctors, src: Some(t_src), recursive });
    sb.push(Decl { kind: Kind::Adt, texpr: "U".into(), ctors: u_ctors, src: Some(u_src), recursive: false });
    sb.bool_();
    sb.decls
}

/// all patterns of type `ty` up to nesting depth d, `_` first, then constructor by constructor
fn all_pats(sig: &Sig, ty: Ty, d: usize) -> Vec<P> {
    let mut out = vec![P::W];
    if d == 0 {
        return out;
    }
    if let Ty::Data(t) = ty {
        for (ci, c) in sig[t].ctors.iter().enumerate() {
            let parts: Vec<Vec<P>> = c.fields.iter().map(|f| all_pats(sig, *f, d - 1)).collect();
            let mut combos: Vec<Vec<P>> = vec![vec![]];
            for p in &parts {
                let mut next = vec![];
                for pre in &combos {
                    for x in p {
                        let mut y = pre.clone();
                        y.push(x.clone());
                        next.push(y);
                    }
                }
                combos = next;
            }
            for a in combos {
                out.push(P::K(t, ci, a));
            }
        }
    }
    out
}

struct FamilyBlock {
    sig: Sig,
    pats: Vec<P>,
    len: usize,
    size: u64,
}

/// blocks (signature, clause-list length); a case of a block is a number < size whose base-|pats|
/// digits are the clauses
fn family_blocks() -> (Vec<FamilyBlock>, String) {
    let mut blocks = vec![];
    let mut desc = vec![];
    for shape in family_sigs() {
        let sig = family_sig(&shape);
        let pats = all_pats(&sig, Ty::Data(0), 2);
        let n = pats.len() as u64;
        let maxlen = if n.pow(4) <= 15000 { 4 } else { 3 };
        let ctors: Vec<String> = shape
            .iter()
            .enumerate()
            .map(|(i, fs)| {
                if fs.is_empty() {
                    FAMILY_T_NAMES[i].to_string()
                } else {
                    format!(
                        "{}({})",
                        FAMILY_T_NAMES[i],
                        fs.iter().map(|f| format!("{:?}", f)).collect::<Vec<_>>().join(",")
                    )
                }
            })
            .collect();
        desc.push(format!("{{{}}}:{}pats,len<={}", ctors.join(" "), n, maxlen));
        for len in 1..=maxlen {
            blocks.push(FamilyBlock { sig: sig.clone(), pats: pats.clone(), len, size: n.pow(len as u32) });
        }
    }
    (blocks, desc.join("; "))
}

fn family_case(b: &FamilyBlock, mut k: u64, seed: u64) -> Case {
    let n = b.pats.len() as u64;
    let mut cs = vec![];
    for _ in 0..b.len {
        cs.push(b.pats[(k % n) as usize].clone());
        k /= n;
    }
    cs.reverse();
    Case { sig: b.sig.clone(), scrut: Ty::Data(0), clauses: cs, is_let: false, style_seed: seed, origin: "family" }
}

// ───────────────────────────── random larger cases ─────────────────────────────

// (literals beyond 64 bits as well: Aiken's Int is unbounded, and two distinct literals must stay distinct
// for the checker however large they are)
const INT_POOL: [i128; 14] = [
    0,
    1,
    -1,
    2,
    42,
    1000,
    -255,
    9223372036854775807,
    9223372036854775808,
    18446744073709551616,
    36893488147419103232,
    -9223372036854775808,
    -9223372036854775809,
    -18446744073709551617,
];

fn bytes_pool() -> Vec<Vec<u8>> {
    // several byte strings that are not valid UTF-8 and look alike under a lossy text conversion
    vec![vec![], vec![0], vec![0, 0xff], vec![0xff], vec![0xfe], vec![0x80], vec![0xc0], vec![0, 0xfe], vec![0xde, 0xad, 0xbe, 0xef]]
}

fn random_sig(rng: &mut Prng) -> (Sig, Ty) {
    for _ in 0..50 {
        let mut sb = SigB::new();
        let nuser = [0, 1, 1, 2, 2, 3][rng.below(6)];
        let mut user: Vec<usize> = vec![];
        let mut generic_arg: Vec<Option<Ty>> = vec![];
        let mut letters: Vec<char> = "ABCDEFGHIJKLMNOPQRSTUVWXYZ".chars().collect();
        shuffle(&mut letters, rng);
        // placeholders first so that fields can refer to any user type
        for i in 0..nuser {
            if rng.chance(1, 4) {
                let arg = match rng.below(5) {
                    0 => Ty::Int,
                    1 => Ty::Bytes,
                    2 => sb.bool_(),
                    3 if !user.is_empty() => Ty::Data(*rng.pick(&user)),
                    _ => Ty::Int,
                };
                let tx = format!("G{}<{}>", i, sb.tx(arg));
                user.push(sb.push(Decl { kind: Kind::Generic, texpr: tx, ctors: vec![], src: None, recursive: false }));
                generic_arg.push(Some(arg));
            } else {
                user.push(sb.push(Decl {
                    kind: Kind::Adt,
                    texpr: format!("T{}", i),
                    ctors: vec![],
                    src: None,
                    recursive: false,
                }));
                generic_arg.push(None);
            }
        }
        let mut cname = 0;
        for (ui, &me) in user.iter().enumerate() {
            let k = 1 + rng.below(3);
            let base = rng.below(k); // this constructor never mentions a user type: keeps T inhabited
            let mut ctors = vec![];
            let mut fsrc: Vec<Vec<String>> = vec![];
            let mut recursive = false;
            for j in 0..k {
                let arity = [0, 0, 1, 1, 2, 2, 3][rng.below(7)];
                let name = format!("{}{}", letters[cname % 26], if rng.chance(1, 2) { cname.to_string() } else { "".into() });
                cname += 1;
                let mut fields = vec![];
                let mut srcs = vec![];
                for _ in 0..arity {
                    // generic parameter
                    if let Some(arg) = generic_arg[ui] {
                        if rng.chance(1, 3) {
                            fields.push(arg);
                            srcs.push("a".to_string());
                            continue;
                        }
                    }
                    let f = random_field(&mut sb, rng, &user, if j == base { None } else { Some(me) }, 2);
                    if f == Ty::Data(me) {
                        recursive = true;
                        srcs.push(match generic_arg[ui] {
                            Some(_) => format!("G{}<a>", ui),
                            None => sb.tx(f),
                        });
                    } else {
                        // a nested reference to the generic type itself must be at its own parameter
                        // (`G0<a>`), otherwise the declaration is polymorphically recursive and rejected
                        let mut tx = sb.tx(f);
                        if generic_arg[ui].is_some() {
                            let me_tx = sb.decls[me].texpr.clone();
                            if tx.contains(&me_tx) {
                                recursive = true;
                                tx = tx.replace(&me_tx, &format!("G{}<a>", ui));
                            }
                        }
                        srcs.push(tx);
                    }
                    fields.push(f);
                }
                let labels = if arity > 0 && rng.chance(1, 3) {
                    Some((0..arity).map(|x| format!("f{}", ["a", "b", "c"][x])).collect())
                } else {
                    None
                };
                ctors.push(Ctor { name, fields, labels });
                fsrc.push(srcs);
            }
            let head = match generic_arg[ui] {
                Some(_) => format!("G{}<a>", ui),
                None => format!("T{}", ui),
            };
            let src = adt_src(&head, &ctors, &fsrc);
            let d = &mut sb.decls[me];
            d.ctors = ctors;
            d.src = Some(src);
            d.recursive = recursive;
        }
        // scrutinee
        let scrut = match rng.below(20) {
            0 | 1 => Ty::Int,
            2 => Ty::Bytes,
            3..=10 if !sb.decls.is_empty() => Ty::Data(rng.below(sb.decls.len())),
            _ => random_field(&mut sb, rng, &user, None, 3),
        };
        let sig = sb.decls;
        // a generic type whose parameter is unused does not type check at an instance? it does,
        // but all types must be inhabited for the brute force to be meaningful
        let en = Enum::new(&sig, &[]);
        if (0..sig.len()).all(|t| en.smallest[t].is_some()) {
            return (sig, scrut);
        }
    }
    // fallback: Bool
    let mut sb = SigB::new();
    let b = sb.bool_();
    (sb.decls, b)
}

/// `selfref`: Some(me) allows recursion to `me` and references to every user type
fn random_field(sb: &mut SigB, rng: &mut Prng, user: &[usize], selfref: Option<usize>, depth: usize) -> Ty {
    let r = rng.below(100);
    match r {
        0..=19 => Ty::Int,
        20..=27 => Ty::Bytes,
        28..=42 => sb.bool_(),
        43..=57 => match selfref {
            Some(me) if rng.chance(1, 2) => Ty::Data(me),
            Some(_) if !user.is_empty() => Ty::Data(*rng.pick(user)),
            _ => {
                // only user types that are already filled (inhabitedness is checked afterwards anyway)
                if !user.is_empty() {
                    Ty::Data(*rng.pick(user))
                } else {
                    Ty::Int
                }
            }
        },
        _ if depth == 0 => Ty::Int,
        58..=69 => {
            let a = random_field(sb, rng, user, selfref, depth - 1);
            sb.option(a)
        }
        70..=81 => {
            let a = random_field(sb, rng, user, selfref, depth - 1);
            sb.list(a)
        }
        82..=91 => {
            let n = 2 + rng.below(2);
            let ts: Vec<Ty> = (0..n).map(|_| random_field(sb, rng, user, selfref, depth - 1)).collect();
            sb.tuple(ts)
        }
        _ => {
            let a = random_field(sb, rng, user, selfref, depth - 1);
            let b = random_field(sb, rng, user, selfref, depth - 1);
            sb.pair(a, b)
        }
    }
}

fn random_pat(sig: &Sig, ty: Ty, d: usize, rng: &mut Prng) -> P {
    if d == 0 || rng.chance(1, 4) {
        return P::W;
    }
    match ty {
        Ty::Int => {
            let n = if rng.chance(3, 4) { 4 } else { INT_POOL.len() };
            P::I(INT_POOL[rng.below(n)])
        }
        Ty::Bytes => P::B(rng.pick(&bytes_pool()).clone()),
        Ty::Data(t) => {
            let ci = rng.below(sig[t].ctors.len());
            let args = sig[t].ctors[ci].fields.iter().map(|f| random_pat(sig, *f, d - 1, rng)).collect();
            P::K(t, ci, args)
        }
    }
}

/// an ordered, exhaustive, irredundant clause list of at most `budget` clauses
fn split(sig: &Sig, ty: Ty, d: usize, budget: usize, rng: &mut Prng) -> Vec<P> {
    if d == 0 || budget <= 1 || rng.chance(1, 6) {
        return vec![P::W];
    }
    match ty {
        Ty::Int => {
            let k = 1 + rng.below((budget - 1).min(3));
            let mut pool: Vec<i128> = INT_POOL.to_vec();
            if rng.chance(1, 3) {
                shuffle(&mut pool[..], rng);
            } else {
                shuffle(&mut pool[..5], rng);
            }
            let mut out: Vec<P> = pool[..k].iter().map(|n| P::I(*n)).collect();
            out.push(P::W);
            out
        }
        Ty::Bytes => {
            let k = 1 + rng.below((budget - 1).min(2));
            let mut pool = bytes_pool();
            shuffle(&mut pool, rng);
            let mut out: Vec<P> = pool[..k].iter().map(|b| P::B(b.clone())).collect();
            out.push(P::W);
            out
        }
        Ty::Data(t) => {
            let nct = sig[t].ctors.len();
            let mut order: Vec<usize> = (0..nct).collect();
            if rng.chance(1, 3) {
                shuffle(&mut order, rng);
            }
            let mut handled = nct;
            let mut catchall = false;
            if nct >= 2 && rng.chance(1, 4) {
                handled = 1 + rng.below(nct - 1);
                catchall = true;
            }
            if handled + catchall as usize > budget {
                return vec![P::W];
            }
            let mut out = vec![];
            let mut remaining = budget;
            for pos in 0..handled {
                let ci = order[pos];
                let left = handled - pos - 1 + catchall as usize;
                let b = remaining - left; // ≥ 1
                let mut parts: Vec<Vec<P>> = vec![];
                let mut prod = 1;
                for f in &sig[t].ctors[ci].fields {
                    let bb = b / prod;
                    let part = if bb >= 2 { split(sig, *f, d - 1, bb.min(4), rng) } else { vec![P::W] };
                    prod *= part.len();
                    parts.push(part);
                }
                let mut combos: Vec<Vec<P>> = vec![vec![]];
                for p in &parts {
                    let mut next = vec![];
                    for pre in &combos {
                        for x in p {
                            let mut y = pre.clone();
                            y.push(x.clone());
                            next.push(y);
                        }
                    }
                    combos = next;
                }
                remaining -= combos.len();
                for a in combos {
                    out.push(P::K(t, ci, a));
                }
            }
            if catchall {
                out.push(P::W);
            }
            out
        }
    }
}

/// type of the sub-pattern reached by `path`
fn refine(sig: &Sig, ty: Ty, p: &P, rng: &mut Prng) -> P {
    // replace one wildcard (chosen at random) by a random non-wildcard pattern
    fn count_w(p: &P) -> usize {
        match p {
            P::W => 1,
            P::K(_, _, a) => a.iter().map(count_w).sum(),
            _ => 0,
        }
    }
    fn go(sig: &Sig, ty: Ty, p: &P, k: &mut isize, rng: &mut Prng) -> P {
        match p {
            P::W => {
                *k -= 1;
                if *k == -1 {
                    for _ in 0..8 {
                        let q = random_pat(sig, ty, 2, rng);
                        if q != P::W {
                            return q;
                        }
                    }
                }
                P::W
            }
            P::K(t, ci, args) => {
                let fs = &sig[*t].ctors[*ci].fields;
                P::K(*t, *ci, args.iter().zip(fs).map(|(a, f)| go(sig, *f, a, k, rng)).collect())
            }
            other => other.clone(),
        }
    }
    let n = count_w(p);
    if n == 0 {
        return p.clone();
    }
    let mut k = rng.below(n) as isize;
    go(sig, ty, p, &mut k, rng)
}

fn random_case(rng: &mut Prng) -> Case {
    let (sig, scrut) = random_sig(rng);
    let budget = 1 + rng.below(6);
    let mut cs = split(&sig, scrut, 3, budget, rng);
    let mode = rng.below(10);
    let mut origin = "random:base-exhaustive";
    match mode {
        0..=2 => {}
        3..=5 => {
            origin = "random:made-nonexhaustive";
            if cs.len() >= 2 && rng.chance(2, 3) {
                let i = rng.below(cs.len());
                cs.remove(i);
                if cs.len() >= 2 && rng.chance(1, 4) {
                    let i = rng.below(cs.len());
                    cs.remove(i);
                }
            } else {
                let i = rng.below(cs.len());
                cs[i] = refine(&sig, scrut, &cs[i], rng);
            }
        }
        6..=8 => {
            origin = "random:made-redundant";
            match rng.below(4) {
                0 => {
                    let i = rng.below(cs.len());
                    let j = i + 1 + rng.below(cs.len() - i);
                    let c = if rng.chance(1, 2) { cs[i].clone() } else { refine(&sig, scrut, &cs[i], rng) };
                    cs.insert(j, c);
                }
                1 => {
                    let j = rng.below(cs.len());
                    cs.insert(j, P::W);
                }
                2 => {
                    let c = random_pat(&sig, scrut, 3, rng);
                    cs.push(c);
                }
                _ => {
                    // a refinement of a clause placed after it, then something dropped elsewhere
                    let i = rng.below(cs.len());
                    let c = refine(&sig, scrut, &cs[i], rng);
                    cs.push(c);
                    if cs.len() > 2 && rng.chance(1, 3) {
                        let k = rng.below(cs.len() - 1);
                        if k != i {
                            cs.remove(k);
                        }
                    }
                }
            }
        }
        _ => {
            origin = "random:free";
            let n = 1 + rng.below(6);
            cs = (0..n).map(|_| random_pat(&sig, scrut, 3, rng)).collect();
        }
    }
    cs.truncate(6);
    let is_let = cs.len() == 1 && rng.chance(1, 3);
    Case { sig, scrut, clauses: cs, is_let, style_seed: rng.next(), origin }
}

// ───────────────────────────── driver of the run ─────────────────────────────

fn arg_usize(name: &str) -> Option<usize> {
    let args: Vec<String> = std::env::args().collect();
    args.iter().position(|a| a == name).and_then(|i| args.get(i + 1)).and_then(|v| v.parse().ok())
}

fn arg_str(name: &str) -> Option<String> {
    let args: Vec<String> = std::env::args().collect();
    args.iter().position(|a| a == name).and_then(|i| args.get(i + 1)).cloned()
}

fn par_map<T: Sync, R: Send>(items: &[T], threads: usize, f: impl Fn(&T) -> R + Sync) -> Vec<R> {
    let next = AtomicUsize::new(0);
    let block = 64;
    let mut parts: Vec<Vec<(usize, R)>> = std::thread::scope(|s| {
        let hs: Vec<_> = (0..threads.max(1))
            .map(|_| {
                s.spawn(|| {
                    let mut out = vec![];
                    loop {
                        let st = next.fetch_add(block, Ordering::Relaxed);
                        if st >= items.len() {
                            break;
                        }
                        for i in st..(st + block).min(items.len()) {
                            out.push((i, f(&items[i])));
                        }
                    }
                    out
                })
            })
            .collect();
        hs.into_iter().map(|h| h.join().expect("worker")).collect()
    });
    let mut all: Vec<(usize, R)> = parts.drain(..).flatten().collect();
    all.sort_by_key(|x| x.0);
    all.into_iter().map(|x| x.1).collect()
}

fn root() -> String {
    std::env::var("VERIF_ROOT").unwrap_or_else(|_| "/verif".into())
}

fn real_summary(r: &Real, spans: &[(usize, usize)]) -> String {
    match r {
        Real::Ok => "ok".into(),
        Real::NotExh(_) => "notexhaustive".into(),
        Real::Redundant(at) => match clause_at(spans, *at) {
            Some((i, _)) => format!("redundant {}", i),
            None => format!("redundant @{}", at),
        },
        Real::Panic(m) => format!("panic {}", m),
        Real::Other(v) => format!("other-error:{}", v),
    }
}

/// byte ranges of the clause patterns of the (single) `when` of a hand-written module:
/// every line of the form `<pattern> -> …` inside it
fn corpus_spans(src: &str) -> Vec<(usize, usize)> {
    let mut spans = vec![];
    let mut off = 0;
    for line in src.split_inclusive('\n') {
        if let Some(k) = line.find(" -> ") {
            let lead = line.len() - line.trim_start().len();
            if !line.trim_start().starts_with("fn ") && !line.trim_start().starts_with("//") {
                spans.push((off + lead, off + k));
            }
        }
        off += line.len();
    }
    spans
}

fn run_corpus(rep: &mut Report) {
    let dir = format!("{}/corpus/C07", root());
    let mut files: Vec<_> = match std::fs::read_dir(&dir) {
        Ok(rd) => rd.filter_map(|e| e.ok()).map(|e| e.path()).filter(|p| p.extension().map_or(false, |x| x == "txt")).collect(),
        Err(_) => {
            rep.notes.push(format!("corpus directory {} not found", dir));
            return;
        }
    };
    files.sort();
    for f in files {
        let src = match std::fs::read_to_string(&f) {
            Ok(s) => s,
            Err(_) => continue,
        };
        let name = f.file_name().unwrap().to_string_lossy().to_string();
        let expect = src.lines().next().unwrap_or("").trim_start_matches("// expect:").trim().to_string();
        let real = run_real(&src);
        let got = real_summary(&real, &corpus_spans(&src));
        rep.evaluations += 1;
        rep.count("corpus-cases");
        let ok = if expect == "notexhaustive" { got == "notexhaustive" } else { got == expect };
        if !ok {
            rep.fail(
                &format!("corpus:{}", name),
                "corpus case: the real checker's answer differs from the recorded expectation",
                json!({"source": src}),
                json!({"expected": expect, "got": got, "real": format!("{:?}", real)}),
            );
        }
    }
}

fn noncanonical(rep: &mut Report) {
    let pairs = [
        ("0", "-0"),
        ("-0", "0"),
        ("1", "0x01"),
        ("0x01", "1"),
        ("1000", "1_000"),
        ("1_000", "1000"),
        ("255", "0xff"),
        ("0xFF", "0xff"),
        ("1", "01"),
        ("-1", "-0x1"),
    ];
    for (a, b) in pairs {
        let src = format!("fn f(x: Int) -> Int {{\n  when x is {{\n    {} -> 0\n    {} -> 1\n    _ -> 2\n  }}\n}}\n", a, b);
        let real = run_real(&src);
        let s = match &real {
            Real::Ok => "ok(second-clause-unreachable-but-accepted)".to_string(),
            other => real_summary(other, &corpus_spans(&src)),
        };
        rep.evaluations += 1;
        rep.count(&format!("noncanonical-literal:{}", s));
        rep.count(&format!("noncanonical-literal[{} then {}]:{}", a, b, s));
    }
}

pub fn check(ctx: &Ctx) -> Report {
    let mut rep = Report::new(
        "c07-check",
        "generated (signature, clause list) cases rendered as Aiken `when`/`let` and type-checked by the real \
         front end; answer (ok / redundant i / notexhaustive [patterns]) compared structurally with the Lean model \
         `match check`; the real answer is judged by an independent brute force over enumerated values. \
         Non-trivial = distinct request text (signature + erased clause list)",
    );
    if let Some(p) = arg_str("--probe") {
        let src = std::fs::read_to_string(&p).expect("probe file");
        let real = run_real(&src);
        rep.notes.push(format!("probe {}: {:?} => {}", p, real, real_summary(&real, &corpus_spans(&src))));
        return rep;
    }
    if let Some(p) = &ctx.replay {
        let src = std::fs::read_to_string(p).expect("replay file");
        let real = run_real(&src);
        rep.evaluations = 1;
        rep.sample(json!({"source": src, "real": format!("{:?}", real), "summary": real_summary(&real, &corpus_spans(&src))}));
        if let Real::Panic(m) = &real {
            rep.fail("checker-panic:replay", "the type checker panicked", json!({"source": src}), json!({"message": m}));
        }
        return rep;
    }
    let threads = arg_usize("--threads")
        .unwrap_or_else(|| std::thread::available_parallelism().map(|n| n.get()).unwrap_or(4).min(16));
    run_corpus(&mut rep);
    noncanonical(&mut rep);

    // ── cases
    let mut rng = Prng::new(ctx.seed);
    let mut fam_rng = rng.fork();
    let mut rnd_rng = rng.fork();
    let (blocks, desc) = family_blocks();
    let total: u64 = blocks.iter().map(|b| b.size).sum();
    let mut cases: Vec<Case> = vec![];
    let n_family;
    if ctx.thorough && arg_usize("--n-family").is_none() {
        for b in &blocks {
            for k in 0..b.size {
                cases.push(family_case(b, k, fam_rng.next()));
            }
        }
        n_family = cases.len();
        rep.notes.push(format!("exhaustive family: ALL {} cases", total));
    } else {
        let n = arg_usize("--n-family").unwrap_or(2000);
        // stratified: signature/length block uniformly, then the clause list uniformly
        for _ in 0..n {
            let b = &blocks[fam_rng.below(blocks.len())];
            let k = fam_rng.next() % b.size;
            cases.push(family_case(b, k, fam_rng.next()));
        }
        n_family = n;
        rep.notes.push(format!("exhaustive family: {} sampled cases out of {} (block uniformly, then clause list uniformly)", n, total));
    }
    rep.notes.push(format!(
        "family = type T (constructors named Q, D, X in declaration order) over U {{ Uz Ua(Bool) }} and Bool; for each \
         listed T: ALL clause lists of length 1..maxlen over ALL patterns of T of nesting depth <= 2 (`_` included); \
         B=Bool, T=recursive, U=second ADT; signatures: {}",
        desc
    ));
    let n_random = arg_usize("--n-random").unwrap_or(if ctx.thorough { 50000 } else { 1500 });
    for _ in 0..n_random {
        let mut r = rnd_rng.fork();
        cases.push(random_case(&mut r));
    }
    rep.notes.push(format!("{} family cases, {} random larger cases, {} threads", n_family, n_random, threads));

    // ── real checker + brute force, in parallel (results in case order)
    let results: Vec<(Rendered, Outcome)> = par_map(&cases, threads, |c| {
        let rd = render(c);
        let o = evaluate(c, &rd);
        (rd, o)
    });

    // ── the model
    let reqs: Vec<String> = cases.iter().map(request).collect();
    let mut model: Vec<String> = Vec::with_capacity(reqs.len());
    {
        let chunks: Vec<&[String]> = reqs.chunks(20000).collect();
        let replies = par_map(&chunks, threads.min(8), |c| driver::run(c));
        for r in replies {
            model.extend(r);
        }
    }

    // ── the spec side of the model (firstMatch / firstBind / decision tree with heuristic k) on
    //    probe values, against the brute-force matcher used above
    {
        let mut sreqs: Vec<String> = vec![];
        let mut expect: Vec<String> = vec![];
        for (i, case) in cases.iter().enumerate() {
            let (_, o) = &results[i];
            if o.skip || o.probes.is_empty() {
                continue;
            }
            let rk = ranks(&case.sig);
            let sg = wire_sig(&case.sig, &rk);
            let ps = wire_pats(&case.sig, &rk, &case.clauses);
            for (j, (v, fm)) in o.probes.iter().enumerate() {
                let e = match fm {
                    Some(k) => format!("some {}", k),
                    None => "none".to_string(),
                };
                sreqs.push(format!("match tree {} {} {} {}", i + j, sg, ps, v));
                expect.push(e.clone());
                if j == 0 {
                    sreqs.push(format!("match first {} {} {}", sg, ps, v));
                    expect.push(e);
                }
            }
        }
        let chunks: Vec<&[String]> = sreqs.chunks(20000).collect();
        let replies: Vec<String> = par_map(&chunks, threads.min(8), |c| driver::run(c)).into_iter().flatten().collect();
        for (k, r) in replies.iter().enumerate() {
            rep.evaluations += 1;
            // `first` also prints the (empty) binding list
            let got = r.strip_suffix(" ()").unwrap_or(r);
            if got == expect[k] {
                rep.count("spec-probe:agree");
            } else {
                rep.count("spec-probe:disagree");
                rep.disagree(&format!("spec:{}", sreqs[k]), &sreqs[k], &format!("brute-force first match: {}", expect[k]), r);
            }
        }
    }

    // ── merge
    let mut sampled: BTreeMap<String, u32> = BTreeMap::new();
    for (i, case) in cases.iter().enumerate() {
        let (rd, o) = &results[i];
        rep.evaluations += 1;
        for c in &o.counts {
            rep.count(c);
        }
        if o.skip {
            rep.count("skipped(other-error)");
            if rep.distribution.get("skipped(other-error)") == Some(&1) {
                rep.notes.push(format!("first skipped case ({}): {}", o.real, rd.src.replace('\n', "\\n")));
            }
            continue;
        }
        let req = &reqs[i];
        rep.nontrivial.insert(req.clone());
        let kind = o.real.split(' ').next().unwrap_or("").to_string();
        rep.count(&format!("outcome:{}", kind));
        rep.count(&format!("origin:{}", case.origin));
        rep.count(&format!("{}:{}", if case.origin == "family" { "family-outcome" } else { "random-outcome" }, kind));
        rep.count(&format!("clauses:{}", case.clauses.len()));
        rep.count(&format!(
            "scrutinee:{}",
            match case.scrut {
                Ty::Int => "Int".to_string(),
                Ty::Bytes => "ByteArray".to_string(),
                Ty::Data(t) => format!("{:?}", case.sig[t].kind),
            }
        ));
        for f in &rd.feats {
            rep.count(&format!("feature:{}", f));
        }
        for (k, what, detail) in &o.failures {
            rep.fail(
                &format!("{}:{}", k, req),
                what,
                json!({"source": rd.src, "request": req}),
                json!({"real": o.real, "detail": detail}),
            );
        }
        // comparison with the model
        let real_cmp = o.real_cmp.clone().unwrap_or_default();
        let rk = ranks(&case.sig);
        let m = &model[i];
        let model_cmp = if let Some(rest) = m.strip_prefix("notexhaustive ") {
            match sx_parse(rest) {
                Some(Sx::L(xs)) => {
                    let ps: Result<Vec<P>, String> = xs.iter().map(|x| model_pat(&case.sig, &rk, case.scrut, x)).collect();
                    match ps {
                        Ok(ps) => format!("notexhaustive {}", wire_pats(&case.sig, &rk, &ps)),
                        Err(e) => format!("{} <ill-typed: {}>", m, e),
                    }
                }
                _ => format!("{} <unreadable>", m),
            }
        } else {
            m.clone()
        };
        if m == "bad-request" {
            rep.count("model:bad-request");
        }
        if real_cmp != model_cmp {
            rep.disagree(&format!("check:{}", req), req, &format!("{}  [source: {}]", real_cmp, rd.src.replace('\n', "\\n")), &model_cmp);
            rep.count("disagreement");
        } else {
            rep.count("agree");
        }
        let skey = format!("{}:{}", case.origin, kind);
        let e = sampled.entry(skey).or_insert(0);
        if *e < 1 && (case.origin != "family" || i % 7 == 3) {
            *e += 1;
            rep.sample(json!({"origin": case.origin, "source": rd.src, "request": req, "real": o.real, "model": m}));
        }
    }
    rep
}
