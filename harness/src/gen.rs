//! Seeded generators for UPLC terms (NamedDeBruijn), constants and data.
//! "Kind"-directed so that most terms evaluate for a while; a chaos rate injects
//! ill-typed junk, open variables and partial/over-applications.
use crate::prng::Prng;
use num_bigint::BigInt;
use pallas_primitives::alonzo::PlutusData;
use std::rc::Rc;
use uplc::ast::{Constant, Data, DeBruijn, NamedDeBruijn, Term, Type};
use uplc::builtins::DefaultFunction as F;

pub type T = Term<NamedDeBruijn>;

#[derive(Clone, Copy, PartialEq, Debug)]
pub enum K {
    Int,
    Bytes,
    Str,
    Bool,
    Unit,
    Data,
    ListData,
    ListInt,
    PairDD,
    ListPairDD,
    Any,
}

pub fn pow2(n: u32) -> BigInt {
    BigInt::from(1) << n
}

pub fn gen_int(r: &mut Prng) -> BigInt {
    match r.below(14) {
        0 => BigInt::from(0),
        1 => BigInt::from(1),
        2 => BigInt::from(-1),
        3 => BigInt::from(*r.pick(&[7i64, 8, 9, 63, 64, 65, 127, 128, 255, 256, 257, 8191, 8192, 8193])),
        4 => BigInt::from(r.range(-300, 300)),
        5 => {
            let e = *r.pick(&[31u32, 32, 63, 64, 127, 128, 255, 256]);
            let d = BigInt::from(r.range(-2, 2));
            pow2(e) + d
        }
        6 => {
            let e = *r.pick(&[31u32, 32, 63, 64, 127, 128, 255, 256]);
            let d = BigInt::from(r.range(-2, 2));
            -(pow2(e)) + d
        }
        7 => BigInt::from(r.next() as i64),
        8 => {
            // random big
            let n = 1 + r.below(40);
            let bytes: Vec<u8> = (0..n).map(|_| r.next() as u8).collect();
            let x = BigInt::from_bytes_be(num_bigint::Sign::Plus, &bytes);
            if r.chance(1, 2) { x } else { -x }
        }
        9 => BigInt::from(r.range(0, 70)),
        10 => BigInt::from(r.range(-70, 0)),
        _ => BigInt::from(r.range(-12, 12)),
    }
}

pub fn gen_bytes(r: &mut Prng) -> Vec<u8> {
    let n = match r.below(10) {
        0 => 0,
        1 => 1,
        2 => *r.pick(&[7usize, 8, 9, 16, 17, 31, 32, 33, 64, 65]),
        _ => r.below(12),
    };
    (0..n)
        .map(|_| match r.below(6) {
            0 => 0u8,
            1 => 0xff,
            2 => 0x80,
            3 => 1,
            _ => r.next() as u8,
        })
        .collect()
}

pub fn gen_string(r: &mut Prng) -> String {
    let n = r.below(8);
    let mut s = String::new();
    for _ in 0..n {
        let c = match r.below(10) {
            0 => '\0',
            1 => 'é',
            2 => '€',
            3 => '😀',
            4 => '"',
            5 => '\\',
            6 => '\n',
            _ => (b'a' + (r.below(26) as u8)) as char,
        };
        s.push(c);
    }
    s
}

pub fn gen_data(r: &mut Prng, depth: usize) -> PlutusData {
    let top = if depth == 0 { 2 } else { 5 };
    match r.below(top) {
        0 => Data::integer(gen_int(r)),
        1 => Data::bytestring(gen_bytes(r)),
        2 => {
            let ix = match r.below(6) {
                0 => 0,
                1 => 6,
                2 => 7,
                3 => 127,
                4 => 128,
                _ => r.below(4) as u64,
            };
            let n = r.below(4);
            Data::constr(ix, (0..n).map(|_| gen_data(r, depth - 1)).collect())
        }
        3 => {
            let n = r.below(4);
            Data::list((0..n).map(|_| gen_data(r, depth - 1)).collect())
        }
        _ => {
            let n = r.below(3);
            Data::map((0..n).map(|_| (gen_data(r, depth - 1), gen_data(r, depth - 1))).collect())
        }
    }
}

pub fn gen_const(r: &mut Prng, k: K) -> Constant {
    match k {
        K::Int => Constant::Integer(gen_int(r)),
        K::Bytes => Constant::ByteString(gen_bytes(r)),
        K::Str => Constant::String(gen_string(r)),
        K::Bool => Constant::Bool(r.chance(1, 2)),
        K::Unit => Constant::Unit,
        K::Data => Constant::Data(gen_data(r, 2)),
        K::ListData => {
            let n = r.below(4);
            Constant::ProtoList(Type::Data, (0..n).map(|_| Constant::Data(gen_data(r, 1))).collect())
        }
        K::ListInt => {
            let n = r.below(5);
            Constant::ProtoList(Type::Integer, (0..n).map(|_| Constant::Integer(BigInt::from(r.range(-3, 40)))).collect())
        }
        K::PairDD => Constant::ProtoPair(
            Type::Data,
            Type::Data,
            Rc::new(Constant::Data(gen_data(r, 1))),
            Rc::new(Constant::Data(gen_data(r, 1))),
        ),
        K::ListPairDD => {
            let n = r.below(3);
            Constant::ProtoList(
                Type::Pair(Rc::new(Type::Data), Rc::new(Type::Data)),
                (0..n).map(|_| gen_const(r, K::PairDD)).collect(),
            )
        }
        K::Any => {
            let k = *r.pick(&[K::Int, K::Bytes, K::Str, K::Bool, K::Unit, K::Data, K::ListData, K::ListInt, K::PairDD, K::ListPairDD]);
            if r.chance(1, 8) {
                // nested list / pair of mixed types
                let a = gen_const(r, K::Int);
                let b = gen_const(r, K::Bytes);
                Constant::ProtoList(
                    Type::Pair(Rc::new(Type::Integer), Rc::new(Type::ByteString)),
                    vec![Constant::ProtoPair(Type::Integer, Type::ByteString, Rc::new(a), Rc::new(b))],
                )
            } else {
                gen_const(r, k)
            }
        }
    }
}

/// builtins the Lean model implements, with argument kinds and result kind
pub fn modelled_builtins() -> Vec<(F, Vec<K>, K)> {
    use K::*;
    vec![
        (F::AddInteger, vec![Int, Int], Int),
        (F::SubtractInteger, vec![Int, Int], Int),
        (F::MultiplyInteger, vec![Int, Int], Int),
        (F::DivideInteger, vec![Int, Int], Int),
        (F::QuotientInteger, vec![Int, Int], Int),
        (F::RemainderInteger, vec![Int, Int], Int),
        (F::ModInteger, vec![Int, Int], Int),
        (F::EqualsInteger, vec![Int, Int], Bool),
        (F::LessThanInteger, vec![Int, Int], Bool),
        (F::LessThanEqualsInteger, vec![Int, Int], Bool),
        (F::AppendByteString, vec![Bytes, Bytes], Bytes),
        (F::ConsByteString, vec![Int, Bytes], Bytes),
        (F::SliceByteString, vec![Int, Int, Bytes], Bytes),
        (F::LengthOfByteString, vec![Bytes], Int),
        (F::IndexByteString, vec![Bytes, Int], Int),
        (F::EqualsByteString, vec![Bytes, Bytes], Bool),
        (F::LessThanByteString, vec![Bytes, Bytes], Bool),
        (F::LessThanEqualsByteString, vec![Bytes, Bytes], Bool),
        (F::AppendString, vec![Str, Str], Str),
        (F::EqualsString, vec![Str, Str], Bool),
        (F::EncodeUtf8, vec![Str], Bytes),
        (F::DecodeUtf8, vec![Bytes], Str),
        (F::IfThenElse, vec![Bool, Any, Any], Any),
        (F::ChooseUnit, vec![Unit, Any], Any),
        (F::Trace, vec![Str, Any], Any),
        (F::FstPair, vec![PairDD], Data),
        (F::SndPair, vec![PairDD], Data),
        (F::ChooseList, vec![ListData, Any, Any], Any),
        (F::MkCons, vec![Data, ListData], ListData),
        (F::HeadList, vec![ListData], Data),
        (F::TailList, vec![ListData], ListData),
        (F::NullList, vec![ListData], Bool),
        (F::ChooseData, vec![Data, Any, Any, Any, Any, Any], Any),
        (F::ConstrData, vec![Int, ListData], Data),
        (F::MapData, vec![ListPairDD], Data),
        (F::ListData, vec![ListData], Data),
        (F::IData, vec![Int], Data),
        (F::BData, vec![Bytes], Data),
        (F::UnConstrData, vec![Data], Any),
        (F::UnMapData, vec![Data], ListPairDD),
        (F::UnListData, vec![Data], ListData),
        (F::UnIData, vec![Data], Int),
        (F::UnBData, vec![Data], Bytes),
        (F::EqualsData, vec![Data, Data], Bool),
        (F::MkPairData, vec![Data, Data], PairDD),
        (F::MkNilData, vec![Unit], ListData),
        (F::MkNilPairData, vec![Unit], ListPairDD),
        (F::IntegerToByteString, vec![Bool, Int, Int], Bytes),
        (F::ByteStringToInteger, vec![Bool, Bytes], Int),
        (F::AndByteString, vec![Bool, Bytes, Bytes], Bytes),
        (F::OrByteString, vec![Bool, Bytes, Bytes], Bytes),
        (F::XorByteString, vec![Bool, Bytes, Bytes], Bytes),
        (F::ComplementByteString, vec![Bytes], Bytes),
        (F::ReadBit, vec![Bytes, Int], Bool),
        (F::WriteBits, vec![Bytes, ListInt, Bool], Bytes),
        (F::ReplicateByte, vec![Int, Int], Bytes),
        (F::ShiftByteString, vec![Bytes, Int], Bytes),
        (F::RotateByteString, vec![Bytes, Int], Bytes),
        (F::CountSetBits, vec![Bytes], Int),
        (F::FindFirstSetBit, vec![Bytes], Int),
        (F::ExpModInteger, vec![Int, Int, Int], Int),
        (F::DropList, vec![Int, ListData], ListData),
    ]
}

pub fn var(i: usize) -> T {
    Term::Var(Rc::new(NamedDeBruijn { text: format!("v{}", i), index: DeBruijn::new(i) }))
}
pub fn lam(body: T) -> T {
    Term::Lambda { parameter_name: Rc::new(NamedDeBruijn { text: "x".into(), index: DeBruijn::new(0) }), body: Rc::new(body) }
}
pub fn app(f: T, a: T) -> T {
    Term::Apply { function: Rc::new(f), argument: Rc::new(a) }
}
pub fn delay(t: T) -> T {
    Term::Delay(Rc::new(t))
}
pub fn force(t: T) -> T {
    Term::Force(Rc::new(t))
}
pub fn con(c: Constant) -> T {
    Term::Constant(Rc::new(c))
}
pub fn forced_builtin(f: F) -> T {
    let mut t = Term::Builtin(f);
    for _ in 0..f.force_count() {
        t = force(t);
    }
    t
}

pub struct TermGen {
    pub table: Vec<(F, Vec<K>, K)>,
    /// probability (per 1000 nodes) of injecting junk
    pub chaos: u64,
    pub allow_constr_case: bool,
}

impl TermGen {
    pub fn new(chaos: u64) -> Self {
        TermGen { table: modelled_builtins(), chaos, allow_constr_case: true }
    }

    fn junk(&self, r: &mut Prng, env: &Vec<K>, depth: usize) -> T {
        match r.below(12) {
            0 => Term::Error,
            1 => var(r.below(env.len() + 3)), // possibly free, possibly index 0
            2 => Term::Builtin(self.table[r.below(self.table.len())].0),
            3 => force(self.gen(r, K::Any, env, depth.saturating_sub(1))),
            4 => app(self.gen(r, K::Any, env, depth.saturating_sub(1)), self.gen(r, K::Any, env, depth.saturating_sub(1))),
            5 => delay(self.gen(r, K::Any, env, depth.saturating_sub(1))),
            6 => {
                let mut e = env.clone();
                e.push(K::Any);
                lam(self.gen(r, K::Any, &e, depth.saturating_sub(1)))
            }
            7 => {
                // partial / over application of a builtin
                let (f, ks, _) = self.table[r.below(self.table.len())].clone();
                let n = r.below(ks.len() + 2);
                let mut t = forced_builtin(f);
                for i in 0..n {
                    let k = if i < ks.len() { ks[i] } else { K::Any };
                    t = app(t, self.gen(r, k, env, depth.saturating_sub(1)));
                }
                t
            }
            8 => {
                // wrong number of forces
                let (f, _, _) = self.table[r.below(self.table.len())].clone();
                let mut t = Term::Builtin(f);
                for _ in 0..r.below(4) {
                    t = force(t);
                }
                t
            }
            9 if self.allow_constr_case => {
                let n = r.below(5);
                Term::Constr { tag: r.below(3), fields: (0..n).map(|_| self.gen(r, K::Any, env, depth.saturating_sub(1))).collect() }
            }
            10 if self.allow_constr_case => {
                let n = r.below(3);
                Term::Case {
                    constr: Rc::new(self.gen(r, K::Any, env, depth.saturating_sub(1))),
                    branches: (0..n).map(|_| self.gen(r, K::Any, env, depth.saturating_sub(1))).collect(),
                }
            }
            _ => con(gen_const(r, K::Any)),
        }
    }

    /// a term that (mostly) evaluates to a value of kind `k` in an environment
    /// whose i-th innermost binding has kind `env[len-1-i]`
    pub fn gen(&self, r: &mut Prng, k: K, env: &Vec<K>, depth: usize) -> T {
        if r.next() % 1000 < self.chaos {
            return self.junk(r, env, depth);
        }
        // variables of the right kind
        let candidates: Vec<usize> = (0..env.len()).filter(|i| env[*i] == k || k == K::Any).collect();
        if depth == 0 {
            if !candidates.is_empty() && r.chance(1, 2) {
                let i = *r.pick(&candidates);
                return var(env.len() - i);
            }
            return con(gen_const(r, k));
        }
        match r.below(13) {
            0 | 1 => con(gen_const(r, k)),
            2 => {
                if !candidates.is_empty() {
                    let i = *r.pick(&candidates);
                    var(env.len() - i)
                } else {
                    con(gen_const(r, k))
                }
            }
            3 | 4 | 5 | 6 => {
                // builtin producing k
                let opts: Vec<&(F, Vec<K>, K)> = self.table.iter().filter(|(_, _, res)| *res == k || *res == K::Any || k == K::Any).collect();
                if opts.is_empty() {
                    return con(gen_const(r, k));
                }
                let (f, ks, res) = (*r.pick(&opts)).clone();
                let mut t = forced_builtin(f);
                for ak in ks.iter() {
                    let want = if *ak == K::Any && res == K::Any { k } else { *ak };
                    t = app(t, self.gen(r, want, env, depth - 1));
                }
                t
            }
            7 | 8 => {
                // let-binding: [(lam x body) arg]
                let ak = *r.pick(&[K::Int, K::Bytes, K::Bool, K::Data, K::ListData, K::Str, K::Unit]);
                let arg = self.gen(r, ak, env, depth - 1);
                let mut e = env.clone();
                e.push(ak);
                app(lam(self.gen(r, k, &e, depth - 1)), arg)
            }
            9 => force(delay(self.gen(r, k, env, depth - 1))),
            10 if self.allow_constr_case => {
                // case (constr i fields) branches: branch i is a lambda over the fields
                let nb = 1 + r.below(4);
                let tag = r.below(nb);
                let nf = r.below(6);
                // mostly same-kind fields, so that a permutation of the fields is observable
                let same = *r.pick(&[K::Int, K::Bytes, K::Int]);
                let fks: Vec<K> = (0..nf).map(|_| if r.chance(2, 3) { same } else { *r.pick(&[K::Int, K::Bytes, K::Bool, K::Data]) }).collect();
                let fields: Vec<T> = fks.iter().map(|fk| self.gen(r, *fk, env, depth - 1)).collect();
                let branches: Vec<T> = (0..nb)
                    .map(|_| {
                        let mut e = env.clone();
                        for fk in fks.iter() {
                            e.push(*fk);
                        }
                        // half of the time return all the fields in order (as a constr), so that any
                        // mis-ordering or loss of a field shows in the result
                        let mut b = if r.chance(1, 2) {
                            Term::Constr { tag: 0, fields: (0..nf).map(|j| var(nf - j)).collect() }
                        } else {
                            self.gen(r, k, &e, depth - 1)
                        };
                        for _ in 0..nf {
                            b = lam(b);
                        }
                        b
                    })
                    .collect();
                Term::Case { constr: Rc::new(Term::Constr { tag, fields }), branches }
            }
            11 if self.allow_constr_case => {
                // case on a constant (allowed under semantics E only)
                let (scrut, nb, nf, fk): (T, usize, usize, K) = match r.below(5) {
                    0 => (self.gen(r, K::Bool, env, depth - 1), 2, 0, K::Any),
                    1 => (self.gen(r, K::Unit, env, depth - 1), 1, 0, K::Any),
                    2 => (con(Constant::Integer(BigInt::from(r.range(-1, 3)))), 1 + r.below(3), 0, K::Any),
                    3 => (self.gen(r, K::ListData, env, depth - 1), 1 + r.below(2), 2, K::Data),
                    _ => (self.gen(r, K::PairDD, env, depth - 1), 1, 2, K::Data),
                };
                let branches: Vec<T> = (0..nb)
                    .map(|bi| {
                        let lams = if bi == 0 { nf } else { 0 };
                        let mut e = env.clone();
                        for j in 0..lams {
                            // list: head is Data, tail is ListData
                            e.push(if j == 1 && nb <= 2 && fk == K::Data && lams == 2 { K::Any } else { fk });
                        }
                        let mut b = self.gen(r, k, &e, depth - 1);
                        for _ in 0..lams {
                            b = lam(b);
                        }
                        b
                    })
                    .collect();
                Term::Case { constr: Rc::new(scrut), branches }
            }
            _ => {
                // higher-order: [(lam f [f arg]) (lam x body)]
                let ak = *r.pick(&[K::Int, K::Bytes, K::Bool]);
                let arg = self.gen(r, ak, env, depth - 1);
                let mut e = env.clone();
                e.push(ak);
                let fun = lam(self.gen(r, k, &e, depth - 1));
                app(lam(app(var(1), shift_free(arg))), fun)
            }
        }
    }
}

/// the argument is generated in `env` but placed under one more binder: shift
/// its free variables by one
pub fn shift_free(t: T) -> T {
    fn go(t: &T, depth: usize) -> T {
        match t {
            Term::Var(n) => {
                let i = n.index.inner();
                if i > depth {
                    Term::Var(Rc::new(NamedDeBruijn { text: n.text.clone(), index: DeBruijn::new(i + 1) }))
                } else {
                    t.clone()
                }
            }
            Term::Lambda { parameter_name, body } => Term::Lambda { parameter_name: parameter_name.clone(), body: Rc::new(go(body, depth + 1)) },
            Term::Apply { function, argument } => Term::Apply { function: Rc::new(go(function, depth)), argument: Rc::new(go(argument, depth)) },
            Term::Delay(b) => Term::Delay(Rc::new(go(b, depth))),
            Term::Force(b) => Term::Force(Rc::new(go(b, depth))),
            Term::Constr { tag, fields } => Term::Constr { tag: *tag, fields: fields.iter().map(|f| go(f, depth)).collect() },
            Term::Case { constr, branches } => Term::Case { constr: Rc::new(go(constr, depth)), branches: branches.iter().map(|b| go(b, depth)).collect() },
            other => other.clone(),
        }
    }
    go(&t, 0)
}

pub fn term_size(t: &T) -> usize {
    match t {
        Term::Lambda { body, .. } => 1 + term_size(body),
        Term::Apply { function, argument } => 1 + term_size(function) + term_size(argument),
        Term::Delay(b) | Term::Force(b) => 1 + term_size(b),
        Term::Constr { fields, .. } => 1 + fields.iter().map(term_size).sum::<usize>(),
        Term::Case { constr, branches } => 1 + term_size(constr) + branches.iter().map(term_size).sum::<usize>(),
        _ => 1,
    }
}

pub fn head_kind(t: &T) -> &'static str {
    match t {
        Term::Var(_) => "var",
        Term::Delay(_) => "delay",
        Term::Lambda { .. } => "lambda",
        Term::Apply { .. } => "apply",
        Term::Constant(_) => "constant",
        Term::Force(_) => "force",
        Term::Error => "error",
        Term::Builtin(_) => "builtin",
        Term::Constr { .. } => "constr",
        Term::Case { .. } => "case",
    }
}

pub fn count_formers(t: &T, acc: &mut std::collections::BTreeMap<String, u64>) {
    *acc.entry(format!("former:{}", head_kind(t))).or_insert(0) += 1;
    match t {
        Term::Lambda { body, .. } => count_formers(body, acc),
        Term::Apply { function, argument } => {
            count_formers(function, acc);
            count_formers(argument, acc);
        }
        Term::Delay(b) | Term::Force(b) => count_formers(b, acc),
        Term::Constr { fields, .. } => fields.iter().for_each(|f| count_formers(f, acc)),
        Term::Case { constr, branches } => {
            count_formers(constr, acc);
            branches.iter().for_each(|b| count_formers(b, acc));
        }
        Term::Builtin(f) => {
            *acc.entry(format!("builtin:{:?}", f)).or_insert(0) += 1;
        }
        _ => {}
    }
}


/// EXHAUSTIVE enumeration of the terms with exactly `size` nodes under `depth` enclosing binders over a
/// small alphabet: variables 1..=depth and one free index, lam, app, delay, force, error, three constants,
/// three builtins (one per force-count class), constr tag 0/1 with ≤ 2 fields, case with ≤ 2 branches.
pub fn enumerate(size: usize, depth: usize, memo: &mut std::collections::HashMap<(usize, usize), Rc<Vec<T>>>) -> Rc<Vec<T>> {
    if let Some(v) = memo.get(&(size, depth)) {
        return v.clone();
    }
    let mut out: Vec<T> = vec![];
    if size == 1 {
        for i in 1..=depth + 1 {
            out.push(var(i));
        }
        out.push(Term::Error);
        out.push(con(Constant::Integer(BigInt::from(0))));
        out.push(con(Constant::Integer(BigInt::from(7))));
        out.push(con(Constant::Bool(true)));
        out.push(Term::Builtin(F::AddInteger));
        out.push(Term::Builtin(F::IfThenElse));
        out.push(Term::Builtin(F::HeadList));
        out.push(Term::Constr { tag: 0, fields: vec![] });
        out.push(Term::Constr { tag: 1, fields: vec![] });
    } else {
        for t in enumerate(size - 1, depth + 1, memo).iter() {
            out.push(lam(t.clone()));
        }
        for t in enumerate(size - 1, depth, memo).iter() {
            out.push(delay(t.clone()));
            out.push(force(t.clone()));
            out.push(Term::Constr { tag: 0, fields: vec![t.clone()] });
            out.push(Term::Constr { tag: 1, fields: vec![t.clone()] });
            out.push(Term::Case { constr: Rc::new(t.clone()), branches: vec![] });
        }
        if size >= 3 {
            for a in 1..=(size - 2) {
                let b = size - 1 - a;
                let xs = enumerate(a, depth, memo);
                let ys = enumerate(b, depth, memo);
                for x in xs.iter() {
                    for y in ys.iter() {
                        out.push(app(x.clone(), y.clone()));
                        out.push(Term::Constr { tag: 0, fields: vec![x.clone(), y.clone()] });
                        out.push(Term::Case { constr: Rc::new(x.clone()), branches: vec![y.clone()] });
                    }
                }
            }
        }
        if size >= 4 {
            for a in 1..=(size - 3) {
                for b in 1..=(size - 2 - a) {
                    let c = size - 1 - a - b;
                    if c == 0 {
                        continue;
                    }
                    let xs = enumerate(a, depth, memo);
                    let ys = enumerate(b, depth, memo);
                    let zs = enumerate(c, depth, memo);
                    for x in xs.iter() {
                        for y in ys.iter() {
                            for z in zs.iter() {
                                out.push(Term::Case { constr: Rc::new(x.clone()), branches: vec![y.clone(), z.clone()] });
                            }
                        }
                    }
                }
            }
        }
    }
    let rc = Rc::new(out);
    memo.insert((size, depth), rc.clone());
    rc
}


/// an INERT term (never evaluated: it sits under a delay/lambda of the result) over every term former,
/// mentioning the `scope` enclosing variables at various binder depths
pub fn inert_body(r: &mut Prng, scope: usize, depth: usize) -> T {
    if depth == 0 || r.chance(1, 4) {
        return if scope > 0 && r.chance(4, 5) { var(1 + r.below(scope)) } else { con(Constant::Integer(BigInt::from(r.range(0, 9)))) };
    }
    match r.below(8) {
        0 => lam(inert_body(r, scope + 1, depth - 1)),
        1 => delay(inert_body(r, scope, depth - 1)),
        2 => force(inert_body(r, scope, depth - 1)),
        3 => app(inert_body(r, scope, depth - 1), inert_body(r, scope, depth - 1)),
        4 | 5 => {
            let n = 1 + r.below(3);
            Term::Constr { tag: r.below(3), fields: (0..n).map(|_| inert_body(r, scope, depth - 1)).collect() }
        }
        6 => {
            let n = r.below(3);
            Term::Case { constr: Rc::new(inert_body(r, scope, depth - 1)), branches: (0..n).map(|_| inert_body(r, scope, depth - 1)).collect() }
        }
        _ => lam(lam(inert_body(r, scope + 2, depth - 1))),
    }
}

/// a program whose RESULT is a closure capturing `n` distinct values: `[(lam x1 [(lam x2 … (delay|lam BODY)) c2]) c1]`
pub fn closure_result(r: &mut Prng) -> T {
    let n = 2 + r.below(3);
    let d1 = 2 + r.below(3);
    let d2 = 2 + r.below(3);
    let body = inert_body(r, n + 1, d1);
    let mut t = if r.chance(1, 2) { delay(inert_body(r, n, d2)) } else { lam(body) };
    // innermost binding is x_n; wrap from the inside out
    for i in (0..n).rev() {
        let c = match r.below(3) {
            0 => con(Constant::Integer(BigInt::from(100 + i as i64))),
            1 => con(Constant::ByteString(vec![i as u8])),
            _ => delay(con(Constant::Integer(BigInt::from(200 + i as i64)))),
        };
        t = app(lam(t), c);
    }
    t
}

/// `case` on a constr with MORE fields than the selected branch has leading lambdas: the left-over
/// fields are applied, in field order, to whatever the branch body returns — here an order-sensitive
/// function (a builtin, partially applied or not, or a curried lambda returning a non-commutative
/// combination), so the order of application is visible in the result
pub fn case_leftover(r: &mut Prng) -> T {
    use uplc::builtins::DefaultFunction as F;
    let int = |n: i64| con(Constant::Integer(BigInt::from(n)));
    // (arity consumed by the body's result, body, argument maker)
    let shape = r.below(6);
    let (extra, body): (usize, T) = match shape {
        0 => (2, Term::Builtin(F::SubtractInteger)),
        1 => (2, Term::Builtin(F::LessThanInteger)),
        2 => (2, Term::Builtin(F::AppendByteString)),
        3 => (3, force(Term::Builtin(F::IfThenElse))),
        // \p q -> p - 2q  (a curried lambda: the machine pushes the fields itself)
        4 => (2, lam(lam(app(app(Term::Builtin(F::SubtractInteger), var(2)), app(app(Term::Builtin(F::MultiplyInteger), int(2)), var(1)))))),
        // a partial application: one argument already given
        _ => (1, app(Term::Builtin(F::SubtractInteger), int(100))),
    };
    let lead = r.below(3); // leading lambdas of the branch, each ignoring its field
    let mut branch = body;
    for _ in 0..lead {
        // the body mentions no variable, so no index needs shifting
        branch = lam(branch);
    }
    let mut fields: Vec<T> = vec![];
    for i in 0..lead {
        fields.push(match r.below(3) {
            0 => int(1000 + i as i64),
            1 => con(Constant::Unit),
            _ => delay(int(7)),
        });
    }
    match shape {
        2 => {
            fields.push(con(Constant::ByteString(vec![1, 2])));
            fields.push(con(Constant::ByteString(vec![3])));
        }
        3 => {
            fields.push(con(Constant::Bool(r.chance(1, 2))));
            fields.push(int(1));
            fields.push(int(2));
        }
        _ => {
            for j in 0..extra {
                fields.push(int(3 + 7 * j as i64 + r.range(0, 3)));
            }
        }
    }
    let tag = r.below(3);
    let mut branches: Vec<T> = vec![];
    for b in 0..=tag {
        branches.push(if b == tag { branch.clone() } else { Term::Error });
    }
    Term::Case { constr: Rc::new(Term::Constr { tag, fields }), branches }
}
