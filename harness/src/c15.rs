//! C15 (tables part): builtin names — Display / FromStr.
use crate::{driver, report::Report, Ctx};
use serde_json::json;
use std::str::FromStr;
use strum::IntoEnumIterator;
use uplc::builtins::DefaultFunction;

pub fn names(_ctx: &Ctx) -> Report {
    let mut rep = Report::new(
        "c15-names",
        "every DefaultFunction variant (exhaustive): Display, FromStr∘Display, TryFrom<u8>∘tag; \
         plus FromStr on mutated names. Non-trivial = distinct variant or distinct mutated name",
    );
    let mut reqs = vec![];
    let mut real = vec![];
    for b in DefaultFunction::iter() {
        let shown = b.to_string();
        reqs.push(format!("names display {:?}", b));
        real.push(format!("ok {}", shown));
        let back = DefaultFunction::from_str(&shown);
        reqs.push(format!("names roundtrip {:?}", b));
        real.push(match &back {
            Ok(x) => format!("some {:?}", x),
            Err(_) => "none".into(),
        });
        if back.as_ref().ok() != Some(&b) {
            rep.fail(
                &format!("names:roundtrip:{:?}", b),
                "builtin name does not parse back to the same builtin",
                json!({"builtin": format!("{:?}", b), "printed": shown}),
                json!({"parsed": format!("{:?}", back)}),
            );
        }
        reqs.push(format!("names tag {:?}", b));
        real.push(format!("ok {}", b as u8));
        reqs.push(format!("names oftag {}", b as u8));
        real.push(match DefaultFunction::try_from(b as u8) {
            Ok(x) => format!("some {:?}", x),
            Err(_) => "none".into(),
        });
        rep.nontrivial.insert(format!("{:?}", b));
        rep.sample(json!({"builtin": format!("{:?}", b), "printed": shown}));
        // mutated names
        for m in [shown.to_uppercase(), format!("{}x", shown), shown[..shown.len() - 1].to_string()] {
            reqs.push(format!("names fromstr {}", crate::wire::hex(m.as_bytes())));
            real.push(match DefaultFunction::from_str(&m) {
                Ok(x) => format!("some {:?}", x),
                Err(_) => "none".into(),
            });
            rep.nontrivial.insert(m);
        }
    }
    for t in 0u8..=255 {
        reqs.push(format!("names oftag {}", t));
        real.push(match DefaultFunction::try_from(t) {
            Ok(x) => format!("some {:?}", x),
            Err(_) => "none".into(),
        });
    }
    // known limits of the token abstraction: spellings in which a peg literal / number matches a proper
    // prefix of a word.  The real parser accepts them, the model's lexer does not split there.  Measured
    // and reported, not compared (never printer output; see notes/C15.md).
    let glued = [
        "(program 1.0.0 (delayx))",
        "(program 1.0.0 (lam x (forcex)))",
        "(program 1.0.0 (constr 1_74))",
        "(program 1.0.0 (constr 0x))",
        "(program 1.0.0 (con integer 5--c\n))",
        "(program 1.0.0 (con (listinteger) []))",
        "(program 1.0.0 (con data(I 1)))",
        "(program 1.0.0 (con integer--c\n 5))",
    ];
    {
        // names starting with `--`: accepted by `ident()`, but a comment as soon as a new-line follows
        let dd = Name { text: "--x".into(), unique: Unique::new(0) };
        let p = mk_prog(Term::Lambda { parameter_name: Rc::new(dd.clone()), body: Rc::new(Term::Lambda { parameter_name: Rc::new(Name { text: "a_long_enough_name_to_force_a_line_break_in_the_output_of_the_pretty_printer_xxxxxxxxxxxxx".into(), unique: Unique::new(1) }), body: Rc::new(Term::Var(Rc::new(dd))) }) });
        let pretty = p.to_pretty();
        match real_parse(&pretty) {
            Parsed::Ok(q) if alpha_wire(&q.term) == alpha_wire(&p.term) => rep.count("name-dashdash-roundtrip-ok"),
            _ => rep.count("name-dashdash-known-limitation (name starting with `--` is read as a comment; excluded by WellFormed)"),
        }
    }
    let glued_reqs: Vec<String> = glued.iter().map(|t| format!("text-parse {}", wire::hex(t.as_bytes()))).collect();
    let glued_model = driver::run(&glued_reqs);
    for (i, t) in glued.iter().enumerate() {
        let real = parsed_str(&real_parse(t));
        if real == glued_model[i] {
            rep.count("glued-spelling-agree");
        } else {
            rep.count("glued-spelling-known-divergence (real accepts, token model rejects)");
            if !(real.starts_with("ok") && glued_model[i] == "err") {
                rep.disagree(&format!("text:glued:{i}"), &glued_reqs[i], &real, &glued_model[i]);
            }
        }
    }

    let model = driver::run(&reqs);
    rep.evaluations = reqs.len() as u64;
    for i in 0..reqs.len() {
        if model[i] != real[i] {
            rep.disagree(&format!("names:{}", reqs[i]), &reqs[i], &real[i], &model[i]);
        }
    }
    rep
}

// =====================================================================================
// C15 (text part): printer / parser round trip
// =====================================================================================
use crate::prng::Prng;
use crate::report::guarded;
use crate::wire;
use num_bigint::BigInt;
use pallas_primitives::alonzo::PlutusData;
use std::rc::Rc;
use uplc::ast::{Constant, Data, DeBruijn, Name, NamedDeBruijn, Program, Term, Type, Unique};
use uplc::machine::runtime::Compressable;

// ------------------------------------------------------------------ the harness's own lexer
/// Tokens of UPLC text, rendered canonically (same format as the Lean driver's `tokensStr`):
/// `(` `)` `[` `]` `,` `()` `_` (white space / comments) `w:<word>` `#<hex chars>` `s:#<hex of raw>`
#[derive(Clone, Debug, PartialEq)]
pub enum Tok {
    LPar,
    RPar,
    LBrack,
    RBrack,
    Comma,
    Unit,
    Ws,
    Word(String),
    Hash(String),
    Str(String), // raw text between the quotes
}

impl Tok {
    pub fn canon(&self) -> String {
        match self {
            Tok::LPar => "(".into(),
            Tok::RPar => ")".into(),
            Tok::LBrack => "[".into(),
            Tok::RBrack => "]".into(),
            Tok::Comma => ",".into(),
            Tok::Unit => "()".into(),
            Tok::Ws => "_".into(),
            Tok::Word(w) => format!("w:{w}"),
            Tok::Hash(h) => format!("#{h}"),
            Tok::Str(r) => format!("s:{}", wire::hex(r.as_bytes())),
        }
    }
    pub fn render(&self) -> String {
        match self {
            Tok::LPar => "(".into(),
            Tok::RPar => ")".into(),
            Tok::LBrack => "[".into(),
            Tok::RBrack => "]".into(),
            Tok::Comma => ",".into(),
            Tok::Unit => "()".into(),
            Tok::Ws => " ".into(),
            Tok::Word(w) => w.clone(),
            Tok::Hash(h) => format!("#{h}"),
            Tok::Str(r) => format!("\"{r}\""),
        }
    }
    fn wordish(&self) -> bool {
        matches!(self, Tok::Word(_) | Tok::Hash(_))
    }
}

fn is_ident_char(c: char) -> bool {
    c.is_ascii_alphanumeric() || c == '_' || c == '\'' || c == '~' || c == '-'
}
fn is_word_char(c: char) -> bool {
    is_ident_char(c) || c == '+' || c == '.'
}

/// one `character()` of the grammar at `cs[i..]`: number of chars consumed, or None
fn lex_character(cs: &[char], i: usize) -> Option<usize> {
    if i >= cs.len() {
        return None;
    }
    if cs[i] == '\\' {
        if i + 1 >= cs.len() {
            return Some(1);
        }
        let k = cs[i + 1];
        if matches!(k, 'n' | 'r' | 't' | '"' | '\'' | '\\') {
            return Some(2);
        }
        if k == 'x' {
            if let Some(n1) = lex_character(cs, i + 2) {
                if let Some(n2) = lex_character(cs, i + 2 + n1) {
                    // both must be single plain hex digits for hex::decode to succeed
                    if n1 == 1 && n2 == 1 && cs[i + 2].is_ascii_hexdigit() && cs[i + 3].is_ascii_hexdigit() {
                        return Some(4);
                    }
                }
            }
        }
        return Some(1);
    }
    if cs[i] == '"' {
        return None;
    }
    Some(1)
}

pub fn lex(text: &str) -> Option<Vec<Tok>> {
    let cs: Vec<char> = text.chars().collect();
    let mut out: Vec<Tok> = vec![];
    let mut i = 0;
    let push_ws = |out: &mut Vec<Tok>| {
        if out.last() != Some(&Tok::Ws) {
            out.push(Tok::Ws)
        }
    };
    while i < cs.len() {
        let c = cs[i];
        if c == ' ' || c == '\n' || c == '\r' || c == '\t' {
            push_ws(&mut out);
            i += 1;
        } else if c == '-' && i + 1 < cs.len() && cs[i + 1] == '-' && cs[i + 2..].contains(&'\n') {
            let nl = cs[i + 2..].iter().position(|&x| x == '\n').unwrap();
            i = i + 2 + nl + 1;
            push_ws(&mut out);
        } else if c == '(' {
            if i + 1 < cs.len() && cs[i + 1] == ')' {
                out.push(Tok::Unit);
                i += 2;
            } else {
                out.push(Tok::LPar);
                i += 1;
            }
        } else if c == ')' {
            out.push(Tok::RPar);
            i += 1;
        } else if c == '[' {
            out.push(Tok::LBrack);
            i += 1;
        } else if c == ']' {
            out.push(Tok::RBrack);
            i += 1;
        } else if c == ',' {
            out.push(Tok::Comma);
            i += 1;
        } else if c == '"' {
            let start = i + 1;
            let mut j = start;
            loop {
                match lex_character(&cs, j) {
                    Some(n) => j += n,
                    None => break,
                }
            }
            if j < cs.len() && cs[j] == '"' {
                out.push(Tok::Str(cs[start..j].iter().collect()));
                i = j + 1;
            } else {
                return None;
            }
        } else if c == '#' {
            let mut j = i + 1;
            while j < cs.len() && is_ident_char(cs[j]) {
                j += 1;
            }
            out.push(Tok::Hash(cs[i + 1..j].iter().collect()));
            i = j;
        } else if is_word_char(c) {
            let mut j = i;
            while j < cs.len() && is_word_char(cs[j]) {
                j += 1;
            }
            out.push(Tok::Word(cs[i..j].iter().collect()));
            i = j;
        } else {
            return None;
        }
    }
    Some(out)
}

pub fn canon_tokens(ts: &[Tok]) -> String {
    ts.iter().map(|t| t.canon()).collect::<Vec<_>>().join(" ")
}

/// real tokens vs model tokens: same non-ws tokens in the same order, every `_` of the model
/// (mandatory white space) is present in the real output, and the real output has additional white
/// space only at soft breaks, i.e. right before a `)` (the layouts of `printProgramTokensL`)
fn tokens_agree(real: &str, model: &str) -> bool {
    let r: Vec<&str> = real.split(' ').filter(|s| !s.is_empty()).collect();
    let m: Vec<&str> = model.split(' ').filter(|s| !s.is_empty()).collect();
    let (mut i, mut j) = (0, 0);
    while j < m.len() {
        if i >= r.len() {
            return false;
        }
        if m[j] == "_" {
            if r[i] != "_" {
                return false;
            }
            i += 1;
            j += 1;
        } else {
            if r[i] == "_" {
                if i + 1 >= r.len() || r[i + 1] != ")" {
                    return false;
                }
                i += 1;
                continue;
            }
            if r[i] != m[j] {
                return false;
            }
            i += 1;
            j += 1;
        }
    }
    r[i..].iter().all(|t| *t == "_")
}

// ------------------------------------------------------------------ generators
const G1_POINTS: [&str; 2] = [
    "97f1d3a73197d7942695638c4fa9ac0fc3688c4f9774b905a14e3a3f171bac586c55e83ff97a1aeffb3af00adb22c6bb",
    "c00000000000000000000000000000000000000000000000000000000000000000000000000000000000000000000000",
];
const G2_POINTS: [&str; 2] = [
    "93e02b6052719f607dacd3a088274f65596bd0d09920b61ab5da61bbdc7f5049334cf11213945d57e5ac7d055d042b7e024aa2b2f08f0a91260805272dc51051c6e47ad4fa403b02b4510b647ae3d1770bac0326a805bbefd48056c8c121bdb8",
    "c00000000000000000000000000000000000000000000000000000000000000000000000000000000000000000000000000000000000000000000000000000000000000000000000000000000000000000000000000000000000000000000000",
];

fn g1(i: usize) -> Constant {
    Constant::Bls12_381G1Element(Box::new(Compressable::uncompress(&hex::decode(G1_POINTS[i % 2]).unwrap()).unwrap()))
}
fn g2(i: usize) -> Constant {
    Constant::Bls12_381G2Element(Box::new(Compressable::uncompress(&hex::decode(G2_POINTS[i % 2]).unwrap()).unwrap()))
}

pub struct Gen {
    pub rng: Prng,
}

const SPECIAL_CHARS: [u32; 40] = [
    0x00, 0x01, 0x07, 0x08, 0x09, 0x0a, 0x0b, 0x0c, 0x0d, 0x1b, 0x1f, 0x20, 0x22, 0x27, 0x5c, 0x78, 0x30, 0x41, 0x7e, 0x7f,
    0x80, 0x85, 0xa0, 0xe9, 0xff, 0x100, 0x7ff, 0x800, 0x2028, 0xd7ff, 0xe000, 0xfeff, 0xfffd, 0xffff, 0x10000, 0x1f600,
    0xe0041, 0x10ffff, 0x23, 0x2d,
];

impl Gen {
    pub fn new(seed: u64) -> Self {
        Gen { rng: Prng::new(seed) }
    }

    pub fn char(&mut self) -> char {
        let r = &mut self.rng;
        let cp = match r.below(10) {
            0..=2 => *r.pick(&SPECIAL_CHARS),
            3..=4 => r.below(128) as u32,
            5 => 0x80 + r.below(0x780) as u32,
            6 => 0x800 + r.below(0xf800) as u32,
            7 => 0x10000 + r.below(0x100000) as u32,
            _ => 0x20 + r.below(0x5f) as u32,
        };
        char::from_u32(cp).unwrap_or('\u{fffd}')
    }

    pub fn string(&mut self) -> String {
        let n = match self.rng.below(6) {
            0 => 0,
            1 => 1,
            2 => 2,
            _ => self.rng.below(12),
        };
        let mut s = String::new();
        for _ in 0..n {
            // sometimes text that looks like an escape sequence
            if self.rng.chance(1, 12) {
                s.push_str(*self.rng.pick(&["\\x41", "\\n", "\\\"", "\\", "\"", "\\x", "--", "\\xc3\\xa9", "\\'"]));
            } else {
                s.push(self.char());
            }
        }
        s
    }

    pub fn bigint(&mut self) -> BigInt {
        let r = &mut self.rng;
        let mag: BigInt = match r.below(8) {
            0 => BigInt::from(0),
            1 => BigInt::from(r.below(10) as u64),
            2 => BigInt::from(r.next()),
            3 => BigInt::from(1u8) << (8 * (1 + r.below(12))),
            4 => (BigInt::from(1u8) << (64 * (1 + r.below(4)))) - 1,
            5 => {
                let mut x = BigInt::from(r.next());
                for _ in 0..r.below(6) {
                    x = x * BigInt::from(r.next()) + BigInt::from(r.next());
                }
                x
            }
            6 => BigInt::from(i64::MAX) + r.below(3),
            _ => BigInt::from(r.below(100000) as u64),
        };
        if self.rng.chance(1, 2) {
            -mag
        } else {
            mag
        }
    }

    pub fn bytes(&mut self) -> Vec<u8> {
        let n = match self.rng.below(6) {
            0 => 0,
            1 => 1,
            2 => 64 + self.rng.below(4),
            _ => self.rng.below(20),
        };
        (0..n).map(|_| self.rng.next() as u8).collect()
    }

    pub fn constr_ix(&mut self) -> u64 {
        let r = &mut self.rng;
        match r.below(9) {
            0 => 0,
            1 => 6,
            2 => 7,
            3 => 127,
            4 => 128,
            5 => u64::MAX,
            6 => r.below(7) as u64,
            7 => 7 + r.below(121) as u64,
            _ => 128 + (r.next() >> r.below(64)),
        }
    }

    pub fn data(&mut self, depth: usize) -> PlutusData {
        let k = if depth == 0 { 3 + self.rng.below(2) } else { self.rng.below(5) };
        match k {
            0 => {
                let n = self.rng.below(4);
                let ix = self.constr_ix();
                Data::constr(ix, (0..n).map(|_| self.data(depth - 1)).collect())
            }
            1 => {
                let n = self.rng.below(3);
                Data::map((0..n).map(|_| (self.data(depth - 1), self.data(depth - 1))).collect())
            }
            2 => {
                let n = self.rng.below(4);
                Data::list((0..n).map(|_| self.data(depth - 1)).collect())
            }
            3 => Data::integer(self.bigint()),
            _ => Data::bytestring(self.bytes()),
        }
    }

    pub fn ty(&mut self, depth: usize) -> Type {
        let k = if depth == 0 { self.rng.below(8) } else { self.rng.below(11) };
        match k {
            0 => Type::Integer,
            1 => Type::ByteString,
            2 => Type::String,
            3 => Type::Unit,
            4 => Type::Bool,
            5 => Type::Data,
            6 => Type::Bls12_381G1Element,
            7 => Type::Bls12_381G2Element,
            8 | 9 => Type::List(Rc::new(self.ty(depth - 1))),
            _ => Type::Pair(Rc::new(self.ty(depth - 1)), Rc::new(self.ty(depth - 1))),
        }
    }

    pub fn constant_of(&mut self, t: &Type, depth: usize) -> Constant {
        match t {
            Type::Integer => Constant::Integer(self.bigint()),
            Type::ByteString => Constant::ByteString(self.bytes()),
            Type::String => Constant::String(self.string()),
            Type::Unit => Constant::Unit,
            Type::Bool => Constant::Bool(self.rng.chance(1, 2)),
            Type::Data => Constant::Data(self.data(depth.min(3))),
            Type::Bls12_381G1Element => g1(self.rng.below(2)),
            Type::Bls12_381G2Element => g2(self.rng.below(2)),
            Type::Bls12_381MlResult => unreachable!(),
            Type::List(et) => {
                let n = if matches!(**et, Type::Bls12_381MlResult) { 0 } else { self.rng.below(4) };
                Constant::ProtoList((**et).clone(), (0..n).map(|_| self.constant_of(et, depth.saturating_sub(1))).collect())
            }
            Type::Pair(a, b) => Constant::ProtoPair(
                (**a).clone(),
                (**b).clone(),
                Rc::new(self.constant_of(a, depth.saturating_sub(1))),
                Rc::new(self.constant_of(b, depth.saturating_sub(1))),
            ),
        }
    }

    pub fn constant(&mut self) -> Constant {
        let d = self.rng.below(4);
        let t = self.ty(d);
        self.constant_of(&t, 3)
    }

    fn ident(&mut self) -> String {
        const POOL: [&str; 14] = ["x", "y", "f", "i_0", "i_1", "con", "lam", "a-b", "x'", "~t", "_", "0", "delay", "program"];
        if self.rng.chance(3, 4) {
            self.rng.pick(&POOL).to_string()
        } else {
            const CS: &[u8] = b"abcxyzABZ019_'~-";
            let n = 1 + self.rng.below(6);
            let s: String = (0..n).map(|_| *self.rng.pick(CS) as char).collect();
            // a name starting with `--` is read as a comment once a line break follows (notes/C15.md):
            // outside `WellFormed`; measured separately under "name-dashdash"
            if s.starts_with("--") {
                format!("n{s}")
            } else {
                s
            }
        }
    }

    /// a term over `Name`; `consistent`: the unique is a function of the text (and vice versa)
    pub fn term(&mut self, depth: usize, scope: &mut Vec<Name>, names: &mut Vec<Name>, consistent: bool) -> Term<Name> {
        let k = if depth == 0 { self.rng.below(4) } else { 4 + self.rng.below(9) };
        match k {
            0 => {
                if !scope.is_empty() && self.rng.chance(9, 10) {
                    let n = self.rng.pick(scope).clone();
                    Term::Var(Rc::new(n))
                } else {
                    Term::Error
                }
            }
            1 => {
                let all: Vec<DefaultFunction> = DefaultFunction::iter().collect();
                Term::Builtin(*self.rng.pick(&all))
            }
            2 | 3 => Term::Constant(Rc::new(self.constant())),
            4 | 5 | 6 => {
                let n = self.binder(names, consistent);
                scope.push(n.clone());
                let body = self.term(depth - 1, scope, names, consistent);
                scope.pop();
                Term::Lambda { parameter_name: Rc::new(n), body: Rc::new(body) }
            }
            7 | 8 => Term::Apply {
                function: Rc::new(self.term(depth - 1, scope, names, consistent)),
                argument: Rc::new(self.term(depth - 1, scope, names, consistent)),
            },
            9 => Term::Delay(Rc::new(self.term(depth - 1, scope, names, consistent))),
            10 => Term::Force(Rc::new(self.term(depth - 1, scope, names, consistent))),
            11 => {
                let n = self.rng.below(4);
                let tag = match self.rng.below(4) {
                    0 => 0,
                    1 => usize::MAX,
                    _ => self.rng.below(300),
                };
                Term::Constr { tag, fields: (0..n).map(|_| self.term(depth - 1, scope, names, consistent)).collect() }
            }
            _ => {
                let n = self.rng.below(4);
                Term::Case {
                    constr: Rc::new(self.term(depth - 1, scope, names, consistent)),
                    branches: (0..n).map(|_| self.term(depth - 1, scope, names, consistent)).collect(),
                }
            }
        }
    }

    fn binder(&mut self, names: &mut Vec<Name>, consistent: bool) -> Name {
        let text = self.ident();
        if consistent {
            if let Some(n) = names.iter().find(|n| n.text == text) {
                return n.clone();
            }
            // uniques deliberately not in interning order
            let u = 1000 - 7 * names.len() as isize;
            let n = Name { text, unique: Unique::new(u) };
            names.push(n.clone());
            n
        } else {
            let n = Name { text, unique: Unique::new(self.rng.below(4) as isize) };
            names.push(n.clone());
            n
        }
    }

    pub fn program(&mut self, consistent: bool) -> Program<Name> {
        let d = 1 + self.rng.below(6);
        let version = match self.rng.below(5) {
            0 => (0, 0, 0),
            1 => (1, 1, 0),
            2 => (usize::MAX, 0, self.rng.below(100)),
            _ => (1, 0, 0),
        };
        let mut scope = vec![];
        let mut names = vec![];
        Program { version, term: self.term(d, &mut scope, &mut names, consistent) }
    }
}


/// the harness's own binder resolution: de Bruijn view of a named term (free variables by text)
pub fn alpha_wire(t: &Term<Name>) -> String {
    fn go(t: &Term<Name>, env: &mut Vec<Unique>, s: &mut String) {
        match t {
            Term::Var(n) => match env.iter().rev().position(|u| *u == n.unique) {
                Some(i) => s.push_str(&format!("(v {})", i + 1)),
                None => s.push_str(&format!("(vf {})", wire::hex(n.text.as_bytes()))),
            },
            Term::Lambda { parameter_name, body } => {
                s.push_str("(l ");
                env.push(parameter_name.unique);
                go(body, env, s);
                env.pop();
                s.push(')');
            }
            Term::Apply { function, argument } => {
                s.push_str("(a ");
                go(function, env, s);
                s.push(' ');
                go(argument, env, s);
                s.push(')');
            }
            Term::Delay(t) => {
                s.push_str("(d ");
                go(t, env, s);
                s.push(')');
            }
            Term::Force(t) => {
                s.push_str("(f ");
                go(t, env, s);
                s.push(')');
            }
            Term::Error => s.push('e'),
            Term::Builtin(b) => s.push_str(&format!("(b {:?})", b)),
            Term::Constant(c) => s.push_str(&format!("(c {})", wire::constant(c))),
            Term::Constr { tag, fields } => {
                s.push_str(&format!("(k {}", tag));
                for f in fields {
                    s.push(' ');
                    go(f, env, s);
                }
                s.push(')');
            }
            Term::Case { constr, branches } => {
                s.push_str("(s ");
                go(constr, env, s);
                for b in branches {
                    s.push(' ');
                    go(b, env, s);
                }
                s.push(')');
            }
        }
    }
    let mut s = String::new();
    go(t, &mut vec![], &mut s);
    s
}

fn prog_wire(p: &Program<Name>) -> String {
    format!("{} {} {} {}", p.version.0, p.version.1, p.version.2, wire::term(&p.term))
}

fn mk_prog(term: Term<Name>) -> Program<Name> {
    Program { version: (1, 0, 0), term }
}

fn con(c: Constant) -> Term<Name> {
    Term::Constant(Rc::new(c))
}

/// directed cases with stable keys
fn directed() -> Vec<(String, Program<Name>)> {
    let mut v: Vec<(String, Program<Name>)> = vec![];
    for b in DefaultFunction::iter() {
        v.push((format!("builtin-{:?}", b), mk_prog(Term::Builtin(b))));
    }
    v.push(("g2-list".into(), mk_prog(con(Constant::ProtoList(Type::Bls12_381G2Element, vec![])))));
    v.push(("g2-list-1".into(), mk_prog(con(Constant::ProtoList(Type::Bls12_381G2Element, vec![g2(0), g2(1)])))));
    v.push(("g1-list-1".into(), mk_prog(con(Constant::ProtoList(Type::Bls12_381G1Element, vec![g1(0), g1(1)])))));
    v.push(("g1".into(), mk_prog(con(g1(0)))));
    v.push(("g2".into(), mk_prog(con(g2(0)))));
    v.push((
        "pair-g1-g2".into(),
        mk_prog(con(Constant::ProtoPair(Type::Bls12_381G1Element, Type::Bls12_381G2Element, Rc::new(g1(1)), Rc::new(g2(1))))),
    ));
    v.push(("ml-empty-list".into(), mk_prog(con(Constant::ProtoList(Type::Bls12_381MlResult, vec![])))));
    v.push((
        "ml-nested-empty-list".into(),
        mk_prog(con(Constant::ProtoList(
            Type::List(Rc::new(Type::Bls12_381MlResult)),
            vec![Constant::ProtoList(Type::Bls12_381MlResult, vec![])],
        ))),
    ));
    v.push(("string-e9".into(), mk_prog(con(Constant::String("\u{e9}".into())))));
    for cp in SPECIAL_CHARS.iter().copied().chain(0..128u32) {
        if let Some(c) = char::from_u32(cp) {
            v.push((format!("string-u{:x}", cp), mk_prog(con(Constant::String(c.to_string())))));
        }
    }
    for (k, s) in [
        ("empty", ""),
        ("looks-escaped", "\\x41\\n\\\\"),
        ("quotes", "\"'\"\"'"),
        ("backslash-end", "abc\\"),
        ("comment-like", "-- not a comment\n"),
        ("mixed", "a\u{e9}\u{0}\u{10ffff}\"\\\t\r\nz"),
        ("spaces", "   "),
    ] {
        v.push((format!("string-{k}"), mk_prog(con(Constant::String(s.into())))));
        v.push((format!("string-list-{k}"), mk_prog(con(Constant::ProtoList(Type::String, vec![Constant::String(s.into()), Constant::String("".into())])))));
    }
    for (k, i) in [
        ("0", BigInt::from(0)),
        ("neg1", BigInt::from(-1)),
        ("2p64", BigInt::from(1u8) << 64usize),
        ("neg2p64", -(BigInt::from(1u8) << 64usize)),
        ("big", BigInt::parse_bytes(b"123456789012345678901234567890123456789012345678901234567890", 10).unwrap()),
    ] {
        v.push((format!("int-{k}"), mk_prog(con(Constant::Integer(i.clone())))));
        v.push((format!("data-int-{k}"), mk_prog(con(Constant::Data(Data::integer(i))))));
    }
    for ix in [0u64, 6, 7, 127, 128, 1000, u64::MAX] {
        v.push((format!("data-constr-{ix}"), mk_prog(con(Constant::Data(Data::constr(ix, vec![Data::integer(1.into()), Data::bytestring(vec![0xff])]))))));
    }
    v.push(("data-map".into(), mk_prog(con(Constant::Data(Data::map(vec![(Data::integer(1.into()), Data::list(vec![])), (Data::bytestring(vec![]), Data::map(vec![]))]))))));
    v.push((
        "data-list-const".into(),
        mk_prog(con(Constant::ProtoList(Type::Data, vec![Constant::Data(Data::constr(0, vec![])), Constant::Data(Data::list(vec![Data::integer(2.into())]))]))),
    ));
    v.push((
        "nested".into(),
        mk_prog(con(Constant::ProtoList(
            Type::Pair(Rc::new(Type::List(Rc::new(Type::Integer))), Rc::new(Type::Pair(Rc::new(Type::Bool), Rc::new(Type::Unit)))),
            vec![Constant::ProtoPair(
                Type::List(Rc::new(Type::Integer)),
                Type::Pair(Rc::new(Type::Bool), Rc::new(Type::Unit)),
                Rc::new(Constant::ProtoList(Type::Integer, vec![Constant::Integer(1.into()), Constant::Integer((-2).into())])),
                Rc::new(Constant::ProtoPair(Type::Bool, Type::Unit, Rc::new(Constant::Bool(true)), Rc::new(Constant::Unit))),
            )],
        ))),
    ));
    v.push(("bytes-empty".into(), mk_prog(con(Constant::ByteString(vec![])))));
    v.push(("bytes".into(), mk_prog(con(Constant::ByteString(vec![0, 1, 0xab, 0xff])))));
    v.push(("unit".into(), mk_prog(con(Constant::Unit))));
    v.push(("bool".into(), mk_prog(con(Constant::Bool(false)))));
    let x = Name { text: "x".into(), unique: Unique::new(0) };
    let y = Name { text: "y".into(), unique: Unique::new(1) };
    let var = |n: &Name| Term::Var(Rc::new(n.clone()));
    let lam = |n: &Name, b: Term<Name>| Term::Lambda { parameter_name: Rc::new(n.clone()), body: Rc::new(b) };
    v.push(("constr-empty".into(), mk_prog(Term::Constr { tag: 0, fields: vec![] })));
    v.push(("constr-max".into(), mk_prog(Term::Constr { tag: usize::MAX, fields: vec![Term::Error, con(Constant::Unit)] })));
    v.push((
        "case".into(),
        mk_prog(Term::Case { constr: Rc::new(Term::Constr { tag: 1, fields: vec![con(Constant::Integer(1.into()))] }), branches: vec![Term::Error, lam(&x, var(&x))] }),
    ));
    v.push(("case-empty".into(), mk_prog(Term::Case { constr: Rc::new(Term::Error), branches: vec![] })));
    v.push(("shadow".into(), mk_prog(lam(&x, lam(&y, lam(&x, Term::Apply { function: Rc::new(var(&x)), argument: Rc::new(var(&y)) }))))));
    v.push(("version".into(), Program { version: (usize::MAX, 18, 0), term: Term::Error }));
    v.push((
        "force-delay".into(),
        mk_prog(Term::Force(Rc::new(Term::Delay(Rc::new(Term::Apply { function: Rc::new(Term::Builtin(DefaultFunction::IfThenElse)), argument: Rc::new(con(Constant::Bool(true))) }))))),
    ));
    v
}

#[derive(PartialEq)]
enum Parsed {
    Ok(Program<Name>),
    Err,
    Panic(String),
}

fn real_parse(text: &str) -> Parsed {
    let t = text.to_string();
    match guarded(move || uplc::parser::program(&t)) {
        Ok(Ok(p)) => Parsed::Ok(p),
        Ok(Err(_)) => Parsed::Err,
        Err(m) => Parsed::Panic(m),
    }
}

fn parsed_str(p: &Parsed) -> String {
    match p {
        Parsed::Ok(p) => format!("ok {}", prog_wire(p)),
        Parsed::Err => "err".into(),
        Parsed::Panic(_) => "panic".into(),
    }
}

/// random layout: white space / comments between tokens (never gluing two word-like tokens,
/// never starting a comment right after a word-like token)
fn render_layout(ts: &[Tok], rng: &mut Prng, minimal: bool) -> String {
    let mut s = String::new();
    let mut prev: Option<&Tok> = None;
    for t in ts {
        if *t == Tok::Ws {
            let mut gap = String::new();
            let n = if minimal { 1 } else { 1 + rng.below(3) };
            for k in 0..n {
                match rng.below(8) {
                    0 => gap.push('\n'),
                    1 => gap.push('\t'),
                    2 => gap.push_str("\r\n"),
                    3 if !(k == 0 && prev.map_or(false, |p| p.wordish())) => gap.push_str("-- c \"(\n"),
                    _ => gap.push(' '),
                }
            }
            s.push_str(&gap);
        } else {
            if let Some(p) = prev {
                if p.wordish() && (t.wordish()) {
                    s.push(' ');
                } else if !minimal && *p != Tok::Ws && rng.chance(1, 4) && !(matches!(p, Tok::LPar) && matches!(t, Tok::RPar)) {
                    // optional white space where the printer puts none
                    s.push_str(if rng.chance(1, 2) { " " } else { "\n  " });
                }
            }
            s.push_str(&t.render());
        }
        prev = Some(t);
    }
    s
}

const WORDS: [&str; 30] = [
    "program", "lam", "delay", "force", "error", "builtin", "con", "constr", "case", "integer", "bytestring", "string", "unit", "bool",
    "data", "list", "pair", "bls12_381_G1_element", "bls12_381_G2_element", "bls12_381_mlresult", "True", "False", "Constr", "Map",
    "List", "I", "B", "fooBar", "verifySignature", "addInteger",
];

fn mutate_tokens(ts: &[Tok], rng: &mut Prng) -> (Vec<Tok>, &'static str) {
    let mut v: Vec<Tok> = ts.to_vec();
    if v.is_empty() {
        return (v, "none");
    }
    let i = rng.below(v.len());
    match rng.below(12) {
        0 => {
            v.remove(i);
            (v, "delete")
        }
        1 => {
            let t = v[i].clone();
            v.insert(i, t);
            (v, "duplicate")
        }
        2 => {
            if i + 1 < v.len() {
                v.swap(i, i + 1);
            }
            (v, "swap")
        }
        3 => {
            v.truncate(i);
            (v, "truncate")
        }
        4 | 5 => {
            // replace some word by another keyword / name
            let idx: Vec<usize> = (0..v.len()).filter(|&k| matches!(v[k], Tok::Word(_))).collect();
            if let Some(&k) = idx.get(rng.below(idx.len().max(1))) {
                v[k] = Tok::Word(rng.pick(&WORDS).to_string());
            }
            (v, "word")
        }
        6 => {
            // numbers: sign games and junk
            let idx: Vec<usize> = (0..v.len()).filter(|&k| matches!(&v[k], Tok::Word(w) if w.chars().last().map_or(false, |c| c.is_ascii_digit()))).collect();
            if let Some(&k) = idx.get(rng.below(idx.len().max(1))) {
                if let Tok::Word(w) = &v[k] {
                    let pre = *rng.pick(&["-", "+", "--", "+-", "-+", "++", "0", "00", "1.", ".", "18446744073709551616", "1_", "-0"]);
                    v[k] = Tok::Word(format!("{pre}{w}"));
                }
            }
            (v, "number")
        }
        7 | 8 => {
            // string contents
            let idx: Vec<usize> = (0..v.len()).filter(|&k| matches!(v[k], Tok::Str(_))).collect();
            if let Some(&k) = idx.get(rng.below(idx.len().max(1))) {
                if let Tok::Str(raw) = &v[k] {
                    let mut cs: Vec<char> = raw.chars().collect();
                    let pos = rng.below(cs.len() + 1);
                    let ins = *rng.pick(&["\\", "\\x", "\\xg1", "\\x4", "\\x41", "\\xC3", "\\q", "\\\\", "\\'", "\u{e9}", "\n", "\\x\\n1", "\\x\\x4141", "\\u{41}"]);
                    for (o, c) in ins.chars().enumerate() {
                        cs.insert(pos + o, c);
                    }
                    // keep it one literal: an unescaped quote would end it, which is a different mutation
                    v[k] = Tok::Str(cs.into_iter().collect());
                }
            }
            (v, "string")
        }
        9 => {
            // hex payloads
            let idx: Vec<usize> = (0..v.len()).filter(|&k| matches!(v[k], Tok::Hash(_))).collect();
            if let Some(&k) = idx.get(rng.below(idx.len().max(1))) {
                if let Tok::Hash(h) = &v[k] {
                    let suf = *rng.pick(&["0", "g", "AB", "_", "zz", "'"]);
                    v[k] = Tok::Hash(format!("{h}{suf}"));
                }
            }
            (v, "hex")
        }
        10 => {
            let t = rng.pick(&[Tok::LPar, Tok::RPar, Tok::LBrack, Tok::RBrack, Tok::Comma, Tok::Unit, Tok::Ws]).clone();
            v.insert(i, t);
            (v, "insert-punct")
        }
        _ => {
            // drop a white-space token (where the grammar may require it)
            let idx: Vec<usize> = (0..v.len()).filter(|&k| v[k] == Tok::Ws).collect();
            if let Some(&k) = idx.get(rng.below(idx.len().max(1))) {
                v.remove(k);
            }
            (v, "drop-ws")
        }
    }
}

fn has_bls_word(ts: &[Tok]) -> bool {
    ts.iter().any(|t| matches!(t, Tok::Word(w) if w.starts_with("0x")))
}

pub fn text(ctx: &Ctx) -> Report {
    let mut rep = Report::new(
        "c15-text",
        "programs over every builtin / constant type / nesting / string class / data tag range: (a) real to_pretty tokenised by the \
         harness lexer vs model printer tokens, (b) real parser vs model parser on printer output, on re-laid-out text and on \
         token-mutated text, (c) property on the real code alone: parse(pretty(p)) alpha-equal to p, pretty(parse(pretty(p))) == pretty(p), \
         CLI conversions. Non-trivial = distinct program wire / distinct mutated text",
    );
    let n = crate::arg_usize("--n", if ctx.thorough { 20000 } else { 1500 });
    let mut g = Gen::new(ctx.seed);
    let mut cases: Vec<(String, Program<Name>, bool)> = directed().into_iter().map(|(k, p)| (k, p, true)).collect();
    for i in 0..n {
        let consistent = i % 5 != 4;
        let p = g.program(consistent);
        cases.push((format!("rand-{}-{}", ctx.seed, i), p, consistent));
    }

    let mut reqs: Vec<String> = vec![];
    let mut expect: Vec<(String, String)> = vec![]; // (key, real) ; compare mode by request prefix
    let mut corpus_texts: Vec<(String, String)> = vec![];
    let root = std::env::var("VERIF_ROOT").unwrap_or_else(|_| "/verif".into());
    if let Ok(rd) = std::fs::read_dir(format!("{root}/corpus/C15")) {
        let mut files: Vec<_> = rd.filter_map(|e| e.ok()).map(|e| e.path()).filter(|p| p.extension().map_or(false, |x| x == "uplc")).collect();
        files.sort();
        for f in files {
            if let Ok(t) = std::fs::read_to_string(&f) {
                corpus_texts.push((f.file_stem().unwrap().to_string_lossy().to_string(), t));
            }
        }
    }
    let mut token_cmp: Vec<bool> = vec![];
    let push = |reqs: &mut Vec<String>, expect: &mut Vec<(String, String)>, token_cmp: &mut Vec<bool>, key: String, req: String, real: String, tok: bool| {
        reqs.push(req);
        expect.push((key, real));
        token_cmp.push(tok);
    };
    let mut mrng = Prng::new(ctx.seed ^ 0x5eed);

    for (key, p, consistent) in &cases {
        let pw = prog_wire(p);
        rep.nontrivial.insert(pw.clone());
        rep.count(if *consistent { "programs-consistent-names" } else { "programs-inconsistent-names" });
        classify(&p.term, &mut rep);
        // --- (a) printer
        let pc = p.clone();
        let pretty = match guarded(move || pc.to_pretty()) {
            Ok(s) => s,
            Err(m) => {
                rep.fail(&format!("text:print-panic:{key}"), "to_pretty panics", json!({"program": pw}), json!({"panic": m}));
                continue;
            }
        };
        if pretty.lines().any(|l| !l.is_empty() && l.trim().is_empty()) {
            rep.fail(&format!("text:layout:{key}"), "whitespace-only line survived", json!({"program": pw}), json!({"text": pretty}));
        }
        let real_tokens = match lex(&pretty) {
            Some(t) => t,
            None => {
                rep.fail(&format!("text:lex:{key}"), "printer output does not tokenise", json!({"program": pw}), json!({"text": pretty}));
                continue;
            }
        };
        if real_tokens.iter().any(|t| matches!(t, Tok::Str(r) if r.contains('\n'))) {
            rep.fail(&format!("text:layout:{key}"), "a string token contains a raw new-line", json!({"program": pw}), json!({"text": pretty}));
        }
        push(&mut reqs, &mut expect, &mut token_cmp, format!("text:print:{key}"), format!("text-print name {}", pw), format!("ok {}", canon_tokens(&real_tokens)), true);
        rep.sample(json!({"program": pw, "pretty": pretty}));
        // --- (b) parser on printer output
        let parsed = real_parse(&pretty);
        push(&mut reqs, &mut expect, &mut token_cmp, format!("text:parse:{key}"), format!("text-parse {}", wire::hex(pretty.as_bytes())), parsed_str(&parsed), false);
        // --- (c) property on the real code
        match &parsed {
            Parsed::Ok(q) => {
                let same = q.version == p.version && alpha_wire(&q.term) == alpha_wire(&p.term);
                if !same {
                    if *consistent {
                        rep.fail(
                            &format!("text:roundtrip:{key}"),
                            "parse(pretty(p)) differs from p",
                            json!({"program": pw, "pretty": pretty}),
                            json!({"expected": alpha_wire(&p.term), "parsed": alpha_wire(&q.term)}),
                        );
                    } else {
                        rep.count("inconsistent-names-not-alpha-equal (hypothesis NamesConsistent is needed)");
                    }
                } else {
                    rep.count("roundtrip-ok");
                }
                let qc = q.clone();
                match guarded(move || qc.to_pretty()) {
                    Ok(again) if again == pretty => rep.count("print-parse-fixpoint-ok"),
                    other => rep.fail(
                        &format!("text:fixpoint:{key}"),
                        "pretty(parse(pretty(p))) != pretty(p)",
                        json!({"program": pw, "pretty": pretty}),
                        json!({"again": format!("{:?}", other)}),
                    ),
                }
            }
            Parsed::Err => rep.fail(&format!("text:roundtrip:{key}"), "parser rejects printer output", json!({"program": pw, "pretty": pretty}), json!({})),
            Parsed::Panic(m) => rep.fail(&format!("text:roundtrip:{key}"), "parser panics on printer output", json!({"program": pw, "pretty": pretty}), json!({"panic": m})),
        }
        // --- CLI conversions (aiken uplc decode / dump_uplc): DeBruijn -> Name -> text -> parse
        if *consistent {
            if let Ok(Ok(db)) = guarded({
                let pc = p.clone();
                move || Program::<DeBruijn>::try_from(pc)
            }) {
                let dbw = format!("{} {} {} {}", db.version.0, db.version.1, db.version.2, wire::term(&db.term));
                let dbc = db.clone();
                if let Ok(s) = guarded(move || dbc.to_pretty()) {
                    if let Some(ts) = lex(&s) {
                        push(&mut reqs, &mut expect, &mut token_cmp, format!("text:print-db:{key}"), format!("text-print db {}", dbw), format!("ok {}", canon_tokens(&ts)), true);
                    }
                }
                let via: Result<Result<Program<Name>, _>, _> = guarded({
                    let dbc = db.clone();
                    move || Program::<Name>::try_from(dbc)
                });
                if let Ok(Ok(named)) = via {
                    let nc = named.clone();
                    match guarded(move || nc.to_pretty()) {
                        Ok(s) => match real_parse(&s) {
                            Parsed::Ok(q) if alpha_wire(&q.term) == alpha_wire(&named.term) && alpha_wire(&q.term) == alpha_wire(&p.term) => rep.count("cli-decode-path-ok"),
                            other => rep.fail(
                                &format!("text:cli-decode:{key}"),
                                "decode path (DeBruijn -> Name -> text -> parse) does not give back the program",
                                json!({"program": dbw, "pretty": s}),
                                json!({"parsed": parsed_str(&other)}),
                            ),
                        },
                        Err(m) => rep.fail(&format!("text:cli-decode:{key}"), "to_pretty panics", json!({"program": dbw}), json!({"panic": m})),
                    }
                }
                let ndb: Program<NamedDeBruijn> = db.clone().into();
                let ndw = format!("{} {} {} {}", ndb.version.0, ndb.version.1, ndb.version.2, wire::term(&ndb.term));
                let nc = ndb.clone();
                if let Ok(s) = guarded(move || nc.to_pretty()) {
                    if let Some(ts) = lex(&s) {
                        push(&mut reqs, &mut expect, &mut token_cmp, format!("text:print-ndb:{key}"), format!("text-print ndb {}", ndw), format!("ok {}", canon_tokens(&ts)), true);
                    }
                }
            } else {
                rep.count("open-term (no de Bruijn form)");
            }
        }
        // --- re-laid-out and mutated text through both parsers
        let model_like: Vec<Tok> = real_tokens.clone();
        let rounds = if ctx.thorough { 3 } else { 2 };
        for r in 0..rounds {
            let (toks, kind) = if r == 0 { (model_like.clone(), "layout") } else { mutate_tokens(&model_like, &mut mrng) };
            if kind == "hex" && has_bls_word(&toks) {
                continue;
            }
            let minimal = r != 0 && mrng.chance(1, 2);
            let text = render_layout(&toks, &mut mrng, minimal);
            if !rep.nontrivial.insert(format!("T{}", text)) {
                continue;
            }
            let parsed = real_parse(&text);
            rep.count(&format!("mutation-{kind}-{}", match &parsed { Parsed::Ok(_) => "accepted", Parsed::Err => "rejected", Parsed::Panic(_) => "panic" }));
            if let Parsed::Panic(m) = &parsed {
                rep.fail(&format!("text:parse-panic:{}", short_key(&text)), "uplc::parser::program panics", json!({"text": text}), json!({"panic": m}));
            }
            if r == 0 {
                // layout must not matter
                if let (Parsed::Ok(q), true) = (&parsed, true) {
                    if let Parsed::Ok(q0) = real_parse(&pretty) {
                        if prog_wire(q) != prog_wire(&q0) {
                            rep.fail(&format!("text:layout-matters:{key}"), "re-laid-out text parses differently", json!({"text": text}), json!({}));
                        }
                    }
                } else if matches!(real_parse(&pretty), Parsed::Ok(_)) {
                    rep.fail(&format!("text:layout-matters:{key}"), "re-laid-out printer output is rejected", json!({"text": text, "pretty": pretty}), json!({}));
                }
            }
            push(&mut reqs, &mut expect, &mut token_cmp, format!("text:parse-mut:{}", short_key(&text)), format!("text-parse {}", wire::hex(text.as_bytes())), parsed_str(&parsed), false);
        }
    }

    // corpus of past failures (texts): both parsers, then the round trip of what was parsed
    for (name, text) in &corpus_texts {
        rep.count("corpus-texts");
        let parsed = real_parse(text);
        if let Parsed::Panic(m) = &parsed {
            rep.fail(&format!("text:parse-panic:corpus-{name}"), "uplc::parser::program panics", json!({"text": text}), json!({"panic": m}));
        }
        push(&mut reqs, &mut expect, &mut token_cmp, format!("text:parse:corpus-{name}"), format!("text-parse {}", wire::hex(text.as_bytes())), parsed_str(&parsed), false);
        if let Parsed::Ok(p) = parsed {
            let pc = p.clone();
            match guarded(move || pc.to_pretty()) {
                Ok(s) => match real_parse(&s) {
                    Parsed::Ok(q) if q.version == p.version && alpha_wire(&q.term) == alpha_wire(&p.term) => rep.count("corpus-roundtrip-ok"),
                    other => rep.fail(
                        &format!("text:roundtrip:corpus-{name}"),
                        "parse(pretty(p)) differs from p",
                        json!({"program": prog_wire(&p), "pretty": s}),
                        json!({"parsed": parsed_str(&other)}),
                    ),
                },
                Err(m) => rep.fail(&format!("text:print-panic:corpus-{name}"), "to_pretty panics", json!({"text": text}), json!({"panic": m})),
            }
        }
    }

    // known limits of the token abstraction: spellings in which a peg literal / number matches a proper
    // prefix of a word.  The real parser accepts them, the model's lexer does not split there.  Measured
    // and reported, not compared (never printer output; see notes/C15.md).
    let glued = [
        "(program 1.0.0 (delayx))",
        "(program 1.0.0 (lam x (forcex)))",
        "(program 1.0.0 (constr 1_74))",
        "(program 1.0.0 (constr 0x))",
        "(program 1.0.0 (con integer 5--c\n))",
        "(program 1.0.0 (con (listinteger) []))",
        "(program 1.0.0 (con data(I 1)))",
        "(program 1.0.0 (con integer--c\n 5))",
    ];
    {
        // names starting with `--`: accepted by `ident()`, but a comment as soon as a new-line follows
        let dd = Name { text: "--x".into(), unique: Unique::new(0) };
        let p = mk_prog(Term::Lambda { parameter_name: Rc::new(dd.clone()), body: Rc::new(Term::Lambda { parameter_name: Rc::new(Name { text: "a_long_enough_name_to_force_a_line_break_in_the_output_of_the_pretty_printer_xxxxxxxxxxxxx".into(), unique: Unique::new(1) }), body: Rc::new(Term::Var(Rc::new(dd))) }) });
        let pretty = p.to_pretty();
        match real_parse(&pretty) {
            Parsed::Ok(q) if alpha_wire(&q.term) == alpha_wire(&p.term) => rep.count("name-dashdash-roundtrip-ok"),
            _ => rep.count("name-dashdash-known-limitation (name starting with `--` is read as a comment; excluded by WellFormed)"),
        }
    }
    let glued_reqs: Vec<String> = glued.iter().map(|t| format!("text-parse {}", wire::hex(t.as_bytes()))).collect();
    let glued_model = driver::run(&glued_reqs);
    for (i, t) in glued.iter().enumerate() {
        let real = parsed_str(&real_parse(t));
        if real == glued_model[i] {
            rep.count("glued-spelling-agree");
        } else {
            rep.count("glued-spelling-known-divergence (real accepts, token model rejects)");
            if !(real.starts_with("ok") && glued_model[i] == "err") {
                rep.disagree(&format!("text:glued:{i}"), &glued_reqs[i], &real, &glued_model[i]);
            }
        }
    }

    let model = driver::run(&reqs);
    rep.evaluations = reqs.len() as u64;
    for i in 0..reqs.len() {
        let (key, real) = &expect[i];
        let ok = if token_cmp[i] {
            model[i].starts_with("ok ") && real.starts_with("ok ") && tokens_agree(&real[3..], &model[i][3..])
        } else {
            model[i] == *real
        };
        if !ok {
            rep.disagree(key, &truncate(&reqs[i], 4000), &truncate(real, 4000), &truncate(&model[i], 4000));
        }
    }
    rep
}

fn truncate(s: &str, n: usize) -> String {
    if s.len() <= n {
        s.to_string()
    } else {
        let mut k = n;
        while !s.is_char_boundary(k) {
            k -= 1;
        }
        format!("{}…", &s[..k])
    }
}

pub fn short_key(text: &str) -> String {
    // stable FNV-1a of the text
    let mut h: u64 = 0xcbf29ce484222325;
    for b in text.as_bytes() {
        h ^= *b as u64;
        h = h.wrapping_mul(0x100000001b3);
    }
    format!("{:016x}", h)
}

fn classify(t: &Term<Name>, rep: &mut Report) {
    match t {
        Term::Var(_) => rep.count("term-var"),
        Term::Lambda { body, .. } => {
            rep.count("term-lam");
            classify(body, rep)
        }
        Term::Apply { function, argument } => {
            rep.count("term-apply");
            classify(function, rep);
            classify(argument, rep)
        }
        Term::Delay(t) => {
            rep.count("term-delay");
            classify(t, rep)
        }
        Term::Force(t) => {
            rep.count("term-force");
            classify(t, rep)
        }
        Term::Error => rep.count("term-error"),
        Term::Builtin(_) => rep.count("term-builtin"),
        Term::Constant(c) => {
            rep.count("term-constant");
            classify_const(c, rep)
        }
        Term::Constr { fields, .. } => {
            rep.count("term-constr");
            for f in fields {
                classify(f, rep)
            }
        }
        Term::Case { constr, branches } => {
            rep.count("term-case");
            classify(constr, rep);
            for b in branches {
                classify(b, rep)
            }
        }
    }
}

fn classify_const(c: &Constant, rep: &mut Report) {
    match c {
        Constant::Integer(_) => rep.count("const-integer"),
        Constant::ByteString(_) => rep.count("const-bytestring"),
        Constant::String(s) => {
            rep.count("const-string");
            if s.chars().any(|c| (c as u32) >= 0x80) {
                rep.count("const-string-non-ascii");
            }
            if s.chars().any(|c| (c as u32) < 0x20 || c == '"' || c == '\\') {
                rep.count("const-string-needs-escape");
            }
        }
        Constant::Unit => rep.count("const-unit"),
        Constant::Bool(_) => rep.count("const-bool"),
        Constant::ProtoList(_, xs) => {
            rep.count("const-list");
            for x in xs {
                classify_const(x, rep)
            }
        }
        Constant::ProtoPair(_, _, a, b) => {
            rep.count("const-pair");
            classify_const(a, rep);
            classify_const(b, rep)
        }
        Constant::Data(d) => {
            rep.count("const-data");
            classify_data(d, rep)
        }
        Constant::Bls12_381G1Element(_) => rep.count("const-g1"),
        Constant::Bls12_381G2Element(_) => rep.count("const-g2"),
        Constant::Bls12_381MlResult(_) => rep.count("const-ml"),
    }
}

fn classify_data(d: &PlutusData, rep: &mut Report) {
    match d {
        PlutusData::Constr(c) => {
            match wire::constr_index(c.tag, c.any_constructor) {
                Some(0..=6) => rep.count("data-constr-tag-0..6"),
                Some(7..=127) => rep.count("data-constr-tag-7..127"),
                Some(_) => rep.count("data-constr-tag-128.."),
                None => rep.count("data-constr-tag-none"),
            }
            for f in c.fields.iter() {
                classify_data(f, rep)
            }
        }
        PlutusData::Map(m) => {
            rep.count("data-map");
            for (k, v) in m.iter() {
                classify_data(k, rep);
                classify_data(v, rep)
            }
        }
        PlutusData::Array(a) => {
            rep.count("data-list");
            for x in a.iter() {
                classify_data(x, rep)
            }
        }
        PlutusData::BigInt(_) => rep.count("data-int"),
        PlutusData::BoundedBytes(_) => rep.count("data-bytes"),
    }
}
