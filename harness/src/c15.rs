//! C15 (tables part): builtin names — Display / FromStr.
use crate::{driver, report::Report, Ctx};
use serde_json::json;
use std::str::FromStr;
use strum::IntoEnumIterator;
use uplc::builtins::DefaultFunction;

pub fn names(_ctx: &Ctx) -> Report {
    let mut rep = Report::new(
        "c15-names",
        "every DefaultFunction variant (exhaustive): Display, FromStr∘Display, TryFrom<u8>∘tag; \
         plus FromStr on mutated names. Non-trivial = distinct variant or distinct mutated name",
    );
    let mut reqs = vec![];
    let mut real = vec![];
    for b in DefaultFunction::iter() {
        let shown = b.to_string();
        reqs.push(format!("names display {:?}", b));
        real.push(format!("ok {}", shown));
        let back = DefaultFunction::from_str(&shown);
        reqs.push(format!("names roundtrip {:?}", b));
        real.push(match &back {
            Ok(x) => format!("some {:?}", x),
            Err(_) => "none".into(),
        });
        if back.as_ref().ok() != Some(&b) {
            rep.fail(
                &format!("names:roundtrip:{:?}", b),
                "builtin name does not parse back to the same builtin",
                json!({"builtin": format!("{:?}", b), "printed": shown}),
                json!({"parsed": format!("{:?}", back)}),
            );
        }
        reqs.push(format!("names tag {:?}", b));
        real.push(format!("ok {}", b as u8));
        reqs.push(format!("names oftag {}", b as u8));
        real.push(match DefaultFunction::try_from(b as u8) {
            Ok(x) => format!("some {:?}", x),
            Err(_) => "none".into(),
        });
        rep.nontrivial.insert(format!("{:?}", b));
        rep.sample(json!({"builtin": format!("{:?}", b), "printed": shown}));
        // mutated names
        for m in [shown.to_uppercase(), format!("{}x", shown), shown[..shown.len() - 1].to_string()] {
            reqs.push(format!("names fromstr {}", crate::wire::hex(m.as_bytes())));
            real.push(match DefaultFunction::from_str(&m) {
                Ok(x) => format!("some {:?}", x),
                Err(_) => "none".into(),
            });
            rep.nontrivial.insert(m);
        }
    }
    for t in 0u8..=255 {
        reqs.push(format!("names oftag {}", t));
        real.push(match DefaultFunction::try_from(t) {
            Ok(x) => format!("some {:?}", x),
            Err(_) => "none".into(),
        });
    }
    let model = driver::run(&reqs);
    rep.evaluations = reqs.len() as u64;
    for i in 0..reqs.len() {
        if model[i] != real[i] {
            rep.disagree(&format!("names:{}", reqs[i]), &reqs[i], &real[i], &model[i]);
        }
    }
    rep
}
