//! C06 — the "unification matrix": a systematic probe of the agreement between what the type
//! checker lets flow where, and the representations the code generator uses.
//!
//! For every ordered pair (T1, T2) of a universe of types (scalars, opaque newtypes, enums, records,
//! and one-level containers of those: List, Option, tuples, Pair, association lists, a generic box)
//! and every CONTEXT in which the checker unifies two types (annotated `let`, `expect`, call
//! argument, return annotation, `|` alternative pattern variable, list literal, `if` branches, a type
//! variable instantiated twice, record field, Data round trip, function-typed binding, `expect` on a
//! function type, pipe, tuple destructuring) a module is rendered in which a value of T1 flows into a
//! T2 slot and is then USED as a T2 (an Int-valued observation that touches its representation).
//! Most modules must be rejected; whatever the REAL checker accepts (T1 = T2, upcasts to Data,
//! `expect` downcasts, or anything a checker change lets through) is compiled and run by the real
//! pipeline: a structural machine error (or a compiler panic) on an accepted module is a
//! counterexample to C06.  The diagonal (T1 = T2) exercises every composite representation.
use crate::c06::ErrObs;
use crate::comp;
use crate::report::Report;
use crate::Ctx;
use serde_json::json;

#[derive(Clone)]
pub struct TyD {
    /// Aiken type text
    pub ty: String,
    /// constant expressions of that type
    pub mk: Vec<String>,
    /// Int-valued observation of `v` (a variable name)
    pub obs: fn(&TyD, &str) -> String,
    /// element descriptor for containers
    pub elem: Option<Box<TyD>>,
    pub short: String,
}

pub const PRELUDE: &str = r#"use aiken/builtin

pub opaque type Wrap {
  inner: Int,
}

pub fn wrap(i: Int) -> Wrap {
  Wrap { inner: i }
}

pub fn unwrap(w: Wrap) -> Int {
  w.inner
}

pub opaque type WrapB {
  bytes: ByteArray,
}

pub fn wrapb(b: ByteArray) -> WrapB {
  WrapB { bytes: b }
}

pub fn unwrapb(w: WrapB) -> ByteArray {
  w.bytes
}

pub type Color {
  Red
  Green
  Blue
}

pub type Rec {
  a: Int,
  b: ByteArray,
}

pub type Multi {
  A(Int)
  B(Bool, ByteArray)
  C
}

pub type Box<t> {
  inner: t,
}

fn pick(x: t, _y: t) -> t {
  x
}

"#;

fn scalar(short: &str, ty: &str, mk: &[&str], obs: fn(&TyD, &str) -> String) -> TyD {
    TyD { ty: ty.into(), mk: mk.iter().map(|s| s.to_string()).collect(), obs, elem: None, short: short.into() }
}

fn scalars() -> Vec<TyD> {
    vec![
        scalar("int", "Int", &["0", "-7", "18446744073709551616"], |_, v| format!("{v} + 1")),
        scalar("bool", "Bool", &["True", "False"], |_, v| format!("if {v} {{\n      1\n    }} else {{\n      0\n    }}")),
        scalar("bytes", "ByteArray", &["#\"ab\"", "#\"\""], |_, v| format!("builtin.length_of_bytearray({v})")),
        scalar("void", "Void", &["Void"], |_, v| format!("when {v} is {{\n      Void -> 1\n    }}")),
        scalar("string", "String", &["@\"a\""], |_, v| format!("builtin.length_of_bytearray(builtin.encode_utf8({v}))")),
        scalar("data", "Data", &["builtin.i_data(1)", "builtin.b_data(#\"ab\")"], |_, v| format!("builtin.length_of_bytearray(builtin.serialise_data({v}))")),
        scalar("wrap", "Wrap", &["wrap(5)"], |_, v| format!("unwrap({v}) + 1")),
        scalar("wrapb", "WrapB", &["wrapb(#\"ab\")"], |_, v| format!("builtin.length_of_bytearray(unwrapb({v}))")),
        scalar("color", "Color", &["Green", "Red"], |_, v| format!("when {v} is {{\n      Red -> 0\n      Green -> 1\n      Blue -> 2\n    }}")),
        scalar("rec", "Rec", &["Rec { a: 1, b: #\"ab\" }"], |_, v| format!("{v}.a + builtin.length_of_bytearray({v}.b)")),
        // a FUNCTION type: never convertible to or from Data, whatever generic code it flows through
        scalar("func", "fn(Int) -> Int", &["fn(n: Int) { n + 1 }"], |_, v| format!("{v}(41)")),
        scalar("multi", "Multi", &["B(True, #\"ab\")", "A(3)", "C"], |_, v| {
            format!("when {v} is {{\n      A(i) -> i\n      B(c, bs) ->\n        if c {{\n          builtin.length_of_bytearray(bs)\n        }} else {{\n          0\n        }}\n      C -> 7\n    }}")
        }),
    ]
}

fn obs_elem(t: &TyD, v: &str) -> String {
    let e = t.elem.as_ref().unwrap();
    (e.obs)(e, v)
}

fn containers(e: &TyD) -> Vec<TyD> {
    let b = |short: &str, ty: String, mk: Vec<String>, obs: fn(&TyD, &str) -> String| TyD { ty, mk, obs, elem: Some(Box::new(e.clone())), short: format!("{}-{}", short, e.short) };
    let e0 = e.mk[0].clone();
    let e1 = e.mk[e.mk.len() - 1].clone();
    vec![
        b("list", format!("List<{}>", e.ty), vec![format!("[{e0}, {e1}]"), "[]".into()], |t, v| {
            format!("when {v} is {{\n      [] -> 0\n      [h, ..] -> {{\n        {}\n      }}\n    }}", obs_elem(t, "h"))
        }),
        b("opt", format!("Option<{}>", e.ty), vec![format!("Some({e0})"), "None".into()], |t, v| {
            format!("when {v} is {{\n      None -> 0\n      Some(h) -> {{\n        {}\n      }}\n    }}", obs_elem(t, "h"))
        }),
        b("tup1", format!("({}, Int)", e.ty), vec![format!("({e0}, 2)")], |t, v| format!("{{\n      let (p, q) = {v}\n      q + {{\n        {}\n      }}\n    }}", obs_elem(t, "p"))),
        b("tup2", format!("(Int, {})", e.ty), vec![format!("(2, {e1})")], |t, v| format!("{{\n      let (q, p) = {v}\n      q + {{\n        {}\n      }}\n    }}", obs_elem(t, "p"))),
        b("pair1", format!("Pair<{}, Int>", e.ty), vec![format!("Pair({e0}, 2)")], |t, v| format!("{{\n      let Pair(p, q) = {v}\n      q + {{\n        {}\n      }}\n    }}", obs_elem(t, "p"))),
        b("pair2", format!("Pair<Int, {}>", e.ty), vec![format!("Pair(2, {e1})")], |t, v| format!("{{\n      let Pair(q, p) = {v}\n      q + {{\n        {}\n      }}\n    }}", obs_elem(t, "p"))),
        b("alist1", format!("List<Pair<{}, Int>>", e.ty), vec![format!("[Pair({e0}, 2)]"), "[]".into()], |t, v| {
            format!("when {v} is {{\n      [] -> 0\n      [Pair(p, q), ..] -> q + {{\n        {}\n      }}\n    }}", obs_elem(t, "p"))
        }),
        b("alist2", format!("List<Pair<Int, {}>>", e.ty), vec![format!("[Pair(2, {e1})]")], |t, v| {
            format!("when {v} is {{\n      [] -> 0\n      [Pair(q, p), ..] -> q + {{\n        {}\n      }}\n    }}", obs_elem(t, "p"))
        }),
        b("box", format!("Box<{}>", e.ty), vec![format!("Box {{ inner: {e0} }}")], |t, v| format!("{{\n      let p = {v}.inner\n      {}\n    }}", obs_elem(t, "p"))),
    ]
}

pub fn universe() -> Vec<TyD> {
    let s = scalars();
    let mut u = s.clone();
    for e in &s {
        if e.short == "string" || e.short == "func" {
            continue; // no Data representation: containers of it are not first-class
        }
        u.extend(containers(e));
    }
    u
}

const CONTEXTS: [&str; 19] = [
    "let", "expect", "call", "return", "alt", "alt-rev", "list", "if", "generic", "field", "data-roundtrip", "fn-binding", "expect-fn", "pipe",
    "destructure", "record-update", "generic-update", "generic-upcast", "generic-trace",
];

/// the module for (context, T1 value flowing into a T2 slot); `None` when the context does not apply
fn render(ctx: &str, t1: &TyD, t2: &TyD, k: usize) -> Option<String> {
    let e1 = &t1.mk[k % t1.mk.len()];
    let e2 = &t2.mk[k % t2.mk.len()];
    let use2 = (t2.obs)(t2, "x");
    let use1 = (t1.obs)(t1, "x");
    let ty1 = &t1.ty;
    let ty2 = &t2.ty;
    let body = match ctx {
        "let" => format!("pub fn t() -> Int {{\n  let x: {ty2} = {e1}\n  {use2}\n}}\n"),
        "expect" => format!("pub fn t() -> Int {{\n  let y: {ty1} = {e1}\n  expect x: {ty2} = y\n  {use2}\n}}\n"),
        "call" => format!("fn use2(x: {ty2}) -> Int {{\n  {use2}\n}}\n\npub fn t() -> Int {{\n  use2({e1})\n}}\n"),
        "return" => format!("fn mk() -> {ty2} {{\n  {e1}\n}}\n\npub fn t() -> Int {{\n  let x = mk()\n  {use2}\n}}\n"),
        "alt" => format!("pub type Alt {{\n  L({ty2})\n  R({ty1})\n}}\n\nfn go(alt: Alt) -> Int {{\n  when alt is {{\n    L(x) | R(x) -> {{\n      {use2}\n    }}\n  }}\n}}\n\npub fn t() -> Int {{\n  go(R({e1})) + go(L({e2}))\n}}\n"),
        "alt-rev" => format!("pub type Alt {{\n  L({ty2})\n  R({ty1})\n}}\n\nfn go(alt: Alt) -> Int {{\n  when alt is {{\n    R(x) | L(x) -> {{\n      {use1}\n    }}\n  }}\n}}\n\npub fn t() -> Int {{\n  go(L({e2})) + go(R({e1}))\n}}\n"),
        "list" => format!("pub fn t() -> Int {{\n  let xs: List<{ty2}> = [{e1}, {e2}]\n  when xs is {{\n    [] -> 0\n    [x, ..] -> {{\n      {use2}\n    }}\n  }}\n}}\n"),
        "if" => format!("fn sel(c: Bool) -> Int {{\n  let x: {ty2} =\n    if c {{\n      {e2}\n    }} else {{\n      {e1}\n    }}\n  {use2}\n}}\n\npub fn t() -> Int {{\n  sel(True) + sel(False)\n}}\n"),
        "generic" => format!("pub fn t() -> Int {{\n  let x: {ty2} = pick({e1}, {e2})\n  {use2}\n}}\n"),
        "field" => format!("pub type Holder {{\n  f: {ty2},\n  g: Int,\n}}\n\npub fn t() -> Int {{\n  let h = Holder {{ f: {e1}, g: 1 }}\n  let x = h.f\n  h.g + {{\n    {use2}\n  }}\n}}\n"),
        "data-roundtrip" => {
            if t1.ty == "String" || t2.ty == "String" {
                return None;
            }
            format!("pub fn t() -> Int {{\n  let y: {ty1} = {e1}\n  let d: Data = y\n  expect x: {ty2} = d\n  {use2}\n}}\n")
        }
        "fn-binding" => format!("pub fn t() -> Int {{\n  let f: fn({ty2}) -> Int = fn(x: {ty1}) {{ {use1} }}\n  f({e2})\n}}\n"),
        "expect-fn" => format!("fn g1(x: {ty1}) -> Int {{\n  {use1}\n}}\n\npub fn t() -> Int {{\n  expect f: fn({ty2}) -> Int = g1\n  f({e2})\n}}\n"),
        "pipe" => format!("fn use2(x: {ty2}) -> Int {{\n  {use2}\n}}\n\npub fn t() -> Int {{\n  {e1} |> use2\n}}\n"),
        // record UPDATE with the new value of type T1 in a T2 field
        "record-update" => format!("pub type Holder {{\n  f: {ty2},\n  g: Int,\n}}\n\npub fn t() -> Int {{\n  let h0 = Holder {{ f: {e2}, g: 1 }}\n  let h = Holder {{ ..h0, f: {e1} }}\n  let x = h.f\n  h.g + {{\n    {use2}\n  }}\n}}\n"),
        // the same inside a GENERIC function (the field type is a type parameter, instantiated at T2)
        "generic-update" => format!("fn set(b: Box<a>, v: a) -> Box<a> {{\n  Box {{ ..b, inner: v }}\n}}\n\npub fn t() -> Int {{\n  let b: Box<{ty2}> = set(Box {{ inner: {e2} }}, {e1})\n  let x = b.inner\n  {use2}\n}}\n"),
        // an implicit upcast to Data of a value of GENERIC type, instantiated at T1, cast back to T2
        "generic-upcast" => {
            if t2.ty == "String" {
                return None;
            }
            format!("fn to_data(v: a) -> Data {{\n  let d: Data = v\n  d\n}}\n\npub fn t() -> Int {{\n  let d = to_data({e1})\n  expect x: {ty2} = d\n  {use2}\n}}\n")
        }
        // … and handed to a builtin that consumes Data
        "generic-trace" => format!("fn size_of(v: a) -> Int {{\n  builtin.length_of_bytearray(builtin.serialise_data(v))\n}}\n\npub fn t() -> Int {{\n  size_of({e1}) + size_of({e2})\n}}\n"),
        "destructure" => format!("pub fn t() -> Int {{\n  let (x, n): ({ty2}, Int) = ({e1}, 1)\n  n + {{\n    {use2}\n  }}\n}}\n"),
        _ => return None,
    };
    Some(format!("{}{}", PRELUDE, body))
}

pub fn run(ctx: &Ctx) -> (Report, Vec<ErrObs>) {
    let mut rep = Report::new("c06-matrix", "");
    let u = universe();
    rep.count_n("matrix:types", u.len() as u64);
    // quick: the diagonal, scalar x scalar, every pair with Data on one side, and containers with the
    // same head over the core element types; thorough: see `related` below (a quarter of the full matrix)
    let core = ["int", "data", "bool", "bytes", "wrap"];
    let mut pairs: Vec<(usize, usize)> = vec![];
    for i in 0..u.len() {
        for j in 0..u.len() {
            let (a, b) = (&u[i], &u[j]);
            let head = |t: &TyD| t.short.split('-').next().unwrap_or("").to_string();
            let elem_core = |t: &TyD| t.elem.as_ref().map(|e| core.contains(&e.short.as_str())).unwrap_or(false);
            let keep = i == j
                || (a.elem.is_none() && b.elem.is_none())
                || a.short == "data"
                || b.short == "data"
                || (a.elem.is_some() && b.elem.is_some() && head(a) == head(b) && elem_core(a) && elem_core(b));
            // thorough: additionally every pair involving a scalar, and containers sharing the head or the element
            let related = a.elem.is_none()
                || b.elem.is_none()
                || head(a) == head(b)
                || a.elem.as_ref().map(|e| e.short.clone()) == b.elem.as_ref().map(|e| e.short.clone());
            if keep || (ctx.thorough && related) {
                pairs.push((i, j));
            }
        }
    }
    rep.count_n("matrix:pairs", pairs.len() as u64);
    let settings = [comp::settings()[0].clone(), comp::settings()[2].clone()];
    let results = comp::par_map(pairs.len() as u64, 14, |pi| {
        let (i, j) = pairs[pi as usize];
        let (t1, t2) = (&u[i], &u[j]);
        let mut rep = Report::new("c06-matrix", "");
        let mut obs: Vec<ErrObs> = vec![];
        for cx in CONTEXTS.iter() {
            let n_k = if i == j { t1.mk.len().max(1) } else { 1 };
            for k in 0..n_k {
                let src = match render(cx, t1, t2, k) {
                    Some(s) => s,
                    None => continue,
                };
                let (sname, tracing) = settings[(pi as usize + k) % 2].clone();
                let label = format!("matrix/{}/{}=>{}#{}", cx, t1.short, t2.short, k);
                let ch = match comp::check(&src, tracing) {
                    Ok(c) => c,
                    Err(e) => {
                        if e.starts_with("panic") {
                            rep.fail(&format!("{}:checker-panic", label), "the type checker panicked", json!({"source": src, "function": "t", "tracing": sname}), json!({"panic": e}));
                        } else {
                            rep.count(&format!("matrix:rejected:{}", cx));
                            if i == j && rep.notes.len() < 4 {
                                rep.notes.push(format!("diagonal module rejected ({}): {}", label, e.chars().take(160).collect::<String>()));
                            }
                        }
                        continue;
                    }
                };
                rep.count(&format!("matrix:accepted:{}", cx));
                if i != j {
                    rep.count(&format!("matrix:accepted-off-diagonal:{}", cx));
                }
                let (post, pre) = comp::compile_keep_pre(&ch, "t", tracing);
                let replay = json!({"source": src, "function": "t", "tracing": sname, "origin": label});
                let mut progs = vec![];
                match post {
                    Ok(p) => progs.push(("post-optimisation", p)),
                    Err(msg) => {
                        rep.fail(&format!("{}:compile-panic", label), "the compiler panicked on a module the type checker accepted", replay.clone(), json!({"panic": msg}));
                        continue;
                    }
                }
                if let Some(raw) = pre {
                    progs.push(("pre-optimisation", comp::evaluable_pre(&raw)));
                }
                for (which, prog) in progs {
                    let o = comp::eval(&prog, &[]);
                    rep.evaluations += 1;
                    let key = format!("{}:{}", label, which);
                    rep.nontrivial.insert(key.clone());
                    match &o {
                        comp::Out::Panic(m) => rep.fail(&format!("{}:machine-panic", key), "the machine panicked on a type-checked program", replay.clone(), json!({"panic": m})),
                        comp::Out::Const(_) | comp::Out::Term(_) => rep.count("outcome:value"),
                        _ => {
                            let v = o.error_variant().unwrap().to_string();
                            rep.count(&format!("error:{}", v));
                            let text = match &o {
                                comp::Out::Fail(_, t) => t.clone(),
                                _ => String::new(),
                            };
                            let mut r = replay.clone();
                            r["program"] = json!(which);
                            obs.push(ErrObs { key, variant: v, which, replay: r, text });
                        }
                    }
                }
            }
        }
        (rep, obs)
    });
    let mut obs = vec![];
    for (r, o) in results {
        comp::merge(&mut rep, r);
        obs.extend(o);
    }
    (rep, obs)
}
