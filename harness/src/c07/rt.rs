//! C07, run-time side (`c07-run`): the clause executed by the COMPILED `when` is the first one,
//! in source order, whose pattern matches, and every pattern variable is bound to the
//! corresponding sub-value.
//!
//! Per case: an accepted clause list whose patterns bind variables (`v`, `p as v`, `..rest`);
//! clause i returns `R<i>(its variables…)`.  The module also contains
//!   `fn probe() -> List<Bool> { [ f(<value>) == R<i>(<sub-values>), … ] }`
//! for enumerated values of the scrutinee type, where `i` and the sub-values are what the
//! brute-force matcher AND the Lean spec `firstBind` (driver `match first`) say.  `probe` is
//! compiled with the real code generator (`CodeGenerator::generate_raw`) and run on the real
//! machine; element k of the result is false (or the program errors) iff the compiled `when`
//! took another clause or bound another value.
use super::*;
use aiken_lang::{
    ast::{DataTypeKey, Definition, FunctionAccessKey, TypedDataType, TypedFunction},
    expr::TypedExpr,
    gen_uplc::CodeGenerator,
    line_numbers::LineNumbers,
    plutus_version::PlutusVersion,
    tipo::TypeInfo,
};
use indexmap::IndexMap;
use uplc::{
    ast::{Constant, DeBruijn, Program, Term},
    machine::cost_model::ExBudget,
};

/// source pattern with variables
#[derive(Clone, Debug)]
enum SP {
    Discard,
    Var(usize),
    As(usize, Box<SP>),
    I(i128),
    B(Vec<u8>),
    K(usize, usize, Vec<SP>),
}

struct VarGen<'a> {
    sig: &'a Sig,
    rng: Prng,
    /// type of each variable
    vars: Vec<Ty>,
}

impl<'a> VarGen<'a> {
    fn fresh(&mut self, ty: Ty) -> usize {
        self.vars.push(ty);
        self.vars.len() - 1
    }
    /// `in_tail`: this position is the tail of a list pattern (only var / discard / a longer list)
    fn sp(&mut self, p: &P, ty: Ty, in_tail: bool) -> SP {
        match p {
            P::W => {
                if self.rng.chance(2, 3) {
                    SP::Var(self.fresh(ty))
                } else {
                    SP::Discard
                }
            }
            P::I(n) => self.maybe_as(SP::I(*n), ty, in_tail),
            P::B(b) => self.maybe_as(SP::B(b.clone()), ty, in_tail),
            P::K(t, ci, args) => {
                let d = &self.sig[*t];
                let is_list = d.kind == Kind::List;
                let fields = d.ctors[*ci].fields.clone();
                // `as` must come before the sub-patterns in binding order (Lean `bind`)
                let as_var = if !in_tail && self.rng.chance(1, 4) { Some(self.fresh(ty)) } else { None };
                let mut sub = vec![];
                for (k, (a, f)) in args.iter().zip(fields.iter()).enumerate() {
                    sub.push(self.sp(a, *f, is_list && k == 1));
                }
                let core = SP::K(*t, *ci, sub);
                match as_var {
                    Some(v) => SP::As(v, Box::new(core)),
                    None => core,
                }
            }
        }
    }
    fn maybe_as(&mut self, core: SP, ty: Ty, in_tail: bool) -> SP {
        if !in_tail && self.rng.chance(1, 6) {
            let v = self.fresh(ty);
            SP::As(v, Box::new(core))
        } else {
            core
        }
    }
}

fn sp_src(sig: &Sig, p: &SP, rng: &mut Prng) -> String {
    match p {
        SP::Discard => "_".into(),
        SP::Var(v) => format!("v{}", v),
        SP::As(v, q) => format!("{} as v{}", sp_src(sig, q, rng), v),
        SP::I(n) => n.to_string(),
        SP::B(b) => format!("#\"{}\"", hex::encode(b)),
        SP::K(t, ci, args) => {
            let d = &sig[*t];
            match d.kind {
                Kind::List => {
                    let mut elems = vec![];
                    let mut cur = p;
                    loop {
                        match cur {
                            SP::K(_, 0, a) => {
                                elems.push(sp_src(sig, &a[0], rng));
                                cur = &a[1];
                            }
                            SP::K(_, _, _) => break,
                            SP::Var(v) => {
                                elems.push(format!("..v{}", v));
                                break;
                            }
                            _ => {
                                elems.push("..".into());
                                break;
                            }
                        }
                    }
                    format!("[{}]", elems.join(", "))
                }
                Kind::Tuple => {
                    let a: Vec<String> = args.iter().map(|a| sp_src(sig, a, rng)).collect();
                    format!("({})", a.join(", "))
                }
                Kind::Pair => {
                    let a: Vec<String> = args.iter().map(|a| sp_src(sig, a, rng)).collect();
                    format!("Pair({})", a.join(", "))
                }
                _ => {
                    let c = &d.ctors[*ci];
                    if args.is_empty() {
                        return c.name.clone();
                    }
                    match &c.labels {
                        // record syntax: labelled fields in a random order, discards possibly
                        // hidden behind `..`, a variable possibly punned with its label
                        Some(ls) if rng.chance(2, 3) => {
                            let mut order: Vec<usize> = (0..args.len()).collect();
                            if rng.chance(1, 2) {
                                shuffle(&mut order, rng);
                            }
                            let mut items = vec![];
                            let mut hidden = false;
                            for &j in &order {
                                if matches!(args[j], SP::Discard) && rng.chance(1, 2) {
                                    hidden = true;
                                    continue;
                                }
                                items.push(format!("{}: {}", ls[j], sp_src(sig, &args[j], rng)));
                            }
                            if hidden {
                                items.push("..".into());
                            }
                            format!("{} {{ {} }}", c.name, items.join(", "))
                        }
                        _ => {
                            // positional; trailing discards may hide behind `..`
                            let trailing = args.iter().rev().take_while(|a| matches!(a, SP::Discard)).count();
                            let hide = if trailing > 0 && rng.chance(1, 3) { 1 + rng.below(trailing) } else { 0 };
                            let mut items: Vec<String> =
                                args[..args.len() - hide].iter().map(|a| sp_src(sig, a, rng)).collect();
                            if hide > 0 {
                                items.push("..".into());
                            }
                            format!("{}({})", c.name, items.join(", "))
                        }
                    }
                }
            }
        }
    }
}

fn sp_wire(sig: &Sig, rk: &BTreeMap<String, usize>, p: &SP) -> String {
    match p {
        SP::Discard => "_".into(),
        SP::Var(v) => format!("(v {})", v),
        SP::As(v, q) => format!("(as {} {})", v, sp_wire(sig, rk, q)),
        SP::I(n) => format!("(i {})", n),
        SP::B(b) => format!("(b #{})", hex::encode(b)),
        SP::K(t, ci, args) => {
            let mut s = format!("(K {} {}", rk[&sig[*t].ctors[*ci].name], t);
            for a in args {
                s.push(' ');
                s.push_str(&sp_wire(sig, rk, a));
            }
            s.push(')');
            s
        }
    }
}

/// own binder (same order as the Lean `bind`: `as` first, then sub-patterns left to right)
fn sp_bind(p: &SP, v: &V, out: &mut Vec<(usize, V)>) -> bool {
    match (p, v) {
        (SP::Discard, _) => true,
        (SP::Var(x), _) => {
            out.push((*x, v.clone()));
            true
        }
        (SP::As(x, q), _) => {
            out.push((*x, v.clone()));
            sp_bind(q, v, out)
        }
        (SP::I(a), V::I(b)) => a == b,
        (SP::B(a), V::B(b)) => a == b,
        (SP::K(_, c, ps), V::K(d, vs)) => {
            c == d && ps.len() == vs.len() && ps.iter().zip(vs).all(|(p, v)| sp_bind(p, v, out))
        }
        _ => false,
    }
}

/// a value as an Aiken expression
fn val_src(sig: &Sig, ty: Ty, v: &V) -> String {
    match (v, ty) {
        (V::I(n), _) => n.to_string(),
        (V::B(b), _) => format!("#\"{}\"", hex::encode(b)),
        (V::K(ci, args), Ty::Data(t)) => {
            let d = &sig[t];
            let c = &d.ctors[*ci];
            let a: Vec<String> = args.iter().zip(&c.fields).map(|(a, f)| val_src(sig, *f, a)).collect();
            match d.kind {
                Kind::List => {
                    let mut elems = vec![];
                    let mut cur = v;
                    while let V::K(0, a) = cur {
                        elems.push(val_src(sig, c_field(sig, t, 0, 0), &a[0]));
                        cur = &a[1];
                    }
                    format!("[{}]", elems.join(", "))
                }
                Kind::Tuple => format!("({})", a.join(", ")),
                Kind::Pair => format!("Pair({})", a.join(", ")),
                _ => {
                    if a.is_empty() {
                        c.name.clone()
                    } else {
                        format!("{}({})", c.name, a.join(", "))
                    }
                }
            }
        }
        _ => "?".into(),
    }
}

fn c_field(sig: &Sig, t: usize, ci: usize, k: usize) -> Ty {
    sig[t].ctors[ci].fields[k]
}

struct RtCase {
    sig: Sig,
    scrut: Ty,
    core: Vec<P>,
    clauses: Vec<SP>,
    vars: Vec<Ty>,
    /// alias[i] = the clause whose body clause i shares (`p_j | p_i -> body`), i itself otherwise
    alias: Vec<usize>,
    origin: &'static str,
}

/// clause i's variables in binding order
fn clause_vars(p: &SP, out: &mut Vec<usize>) {
    match p {
        SP::Var(x) => out.push(*x),
        SP::As(x, q) => {
            out.push(*x);
            clause_vars(q, out)
        }
        SP::K(_, _, ps) => ps.iter().for_each(|q| clause_vars(q, out)),
        _ => {}
    }
}

fn types_src(sig: &Sig) -> String {
    let mut src = String::new();
    let mut seen = BTreeSet::new();
    for d in sig {
        if let Some(s) = &d.src {
            if seen.insert(s.clone()) {
                src.push_str(s);
                src.push('\n');
            }
        }
    }
    src
}

/// module text: types, result type, `f`, and (when `values` is given) `probe`
fn module_src(c: &RtCase, probes: &[(String, String)], style_seed: u64) -> String {
    let mut rng = Prng::new(style_seed);
    let mut src = types_src(&c.sig);
    src.push_str("type ZzRes {\n");
    for (i, p) in c.clauses.iter().enumerate() {
        if c.alias[i] != i {
            continue;
        }
        let mut vs = vec![];
        clause_vars(p, &mut vs);
        if vs.is_empty() {
            src.push_str(&format!("  Zz{}\n", i));
        } else {
            let tys: Vec<String> = vs.iter().map(|v| texpr(&c.sig, c.vars[*v])).collect();
            src.push_str(&format!("  Zz{}({})\n", i, tys.join(", ")));
        }
    }
    src.push_str("}\n\n");
    let bodies: Vec<String> = c
        .clauses
        .iter()
        .enumerate()
        .map(|(i, p)| {
            let mut vs = vec![];
            clause_vars(p, &mut vs);
            if vs.is_empty() {
                format!("Zz{}", i)
            } else {
                format!("Zz{}({})", i, vs.iter().map(|v| format!("v{}", v)).collect::<Vec<_>>().join(", "))
            }
        })
        .collect();
    if c.clauses.len() == 1 && !matches!(c.clauses[0], SP::Var(_) | SP::Discard) && rng.chance(1, 2) {
        // a single irrefutable clause: the `let` form goes through the same matching code
        src.push_str(&format!(
            "fn f(x: {}) -> ZzRes {{\n  let {} = x\n  {}\n}}\n\n",
            texpr(&c.sig, c.scrut),
            sp_src(&c.sig, &c.clauses[0], &mut rng),
            bodies[0]
        ));
    } else {
        src.push_str(&format!("fn f(x: {}) -> ZzRes {{\n  when x is {{\n", texpr(&c.sig, c.scrut)));
        let mut i = 0;
        while i < c.clauses.len() {
            // alternative patterns: consecutive clauses sharing one body
            let mut pats = vec![sp_src(&c.sig, &c.clauses[i], &mut rng)];
            let mut j = i + 1;
            while j < c.clauses.len() && c.alias[j] == i {
                pats.push(sp_src(&c.sig, &c.clauses[j], &mut rng));
                j += 1;
            }
            src.push_str(&format!("    {} -> {}\n", pats.join(" | "), bodies[i]));
            i = j;
        }
        src.push_str("  }\n}\n\n");
    }
    if !probes.is_empty() {
        src.push_str("fn probe() -> List<Bool> {\n  [\n");
        for (v, e) in probes {
            src.push_str(&format!("    f({}) == {},\n", v, e));
        }
        src.push_str("  ]\n}\n");
    }
    src
}

enum RunOut {
    /// one verdict per probe
    Verdicts(Vec<bool>),
    /// front end rejected the module
    Rejected(Real),
    EvalError(String),
    Shape(String),
    Panic(String),
}

fn compile_and_run(src: &str, version: PlutusVersion) -> RunOut {
    let r = guarded(AssertUnwindSafe(|| {
        let kind = ModuleKind::Lib;
        let (mut ast, _) = match parser::module(src, kind) {
            Ok(x) => x,
            Err(_) => return RunOut::Rejected(Real::Other("parse".into())),
        };
        let name = "my_module".to_string();
        ast.name = name.clone();
        let id_gen = IdGenerator::new();
        let mut warnings = vec![];
        let mut module_types: HashMap<String, TypeInfo> = HashMap::new();
        module_types.insert(builtins::PRELUDE.to_string(), builtins::prelude(&id_gen));
        module_types.insert(builtins::BUILTIN.to_string(), builtins::plutus(&id_gen));
        let mut functions: IndexMap<FunctionAccessKey, TypedFunction> =
            builtins::prelude_functions(&id_gen, &module_types);
        let mut data_types: IndexMap<DataTypeKey, TypedDataType> = builtins::prelude_data_types(&id_gen);
        let mut constants: IndexMap<FunctionAccessKey, TypedExpr> = IndexMap::new();
        let typed = match ast.infer(
            &id_gen,
            kind,
            "test/project",
            &module_types,
            Tracing::All(TraceLevel::Silent),
            &mut warnings,
            None,
        ) {
            Ok(t) => t,
            Err(Error::NotExhaustivePatternMatch { unmatched, .. }) => return RunOut::Rejected(Real::NotExh(unmatched)),
            Err(Error::RedundantMatchClause { redundant, .. }) => {
                return RunOut::Rejected(Real::Redundant(redundant.start))
            }
            Err(e) => {
                let d = format!("{:?}", e);
                return RunOut::Rejected(Real::Other(d.chars().take(300).collect()));
            }
        };
        typed.register_definitions(&mut functions, &mut constants, &mut data_types);
        let mut module_sources: HashMap<String, (String, LineNumbers)> = HashMap::new();
        module_sources.insert(name.clone(), (src.to_string(), LineNumbers::new(src)));
        module_types.insert(name.clone(), typed.type_info.clone());
        let probe = typed.definitions().find_map(|d| match d {
            Definition::Fn(f) if f.name == "probe" => Some(f.clone()),
            _ => None,
        });
        let probe = match probe {
            Some(p) => p,
            None => return RunOut::Verdicts(vec![]),
        };
        let mut generator = CodeGenerator::new(
            version,
            functions.iter().collect(),
            constants.iter().collect(),
            data_types.iter().collect(),
            module_types.iter().map(|(k, v)| (k.as_str(), v)).collect(),
            module_sources.iter().map(|(k, v)| (k.as_str(), v)).collect(),
            Tracing::All(TraceLevel::Silent),
        );
        let program = generator.generate_raw(&probe.body, &[], &name);
        let program: Program<DeBruijn> = match program.try_into() {
            Ok(p) => p,
            Err(e) => return RunOut::Shape(format!("debruijn conversion: {:?}", e)),
        };
        let eval = program.eval(ExBudget::max());
        match eval.result() {
            Err(e) => RunOut::EvalError(format!("{:?} logs={:?}", e, eval.logs())),
            Ok(Term::Constant(c)) => match c.as_ref() {
                Constant::ProtoList(_, items) => {
                    let mut out = vec![];
                    for it in items {
                        match it {
                            Constant::Bool(b) => out.push(*b),
                            Constant::Data(pallas_primitives::alonzo::PlutusData::Constr(k)) => match k.tag {
                                121 => out.push(false),
                                122 => out.push(true),
                                _ => return RunOut::Shape(format!("list item {:?}", it)),
                            },
                            _ => return RunOut::Shape(format!("list item {:?}", it)),
                        }
                    }
                    RunOut::Verdicts(out)
                }
                other => RunOut::Shape(format!("result constant {:?}", other)),
            },
            Ok(t) => RunOut::Shape(format!("result term {:?}", t).chars().take(300).collect()),
        }
    }));
    match r {
        Ok(x) => x,
        Err(m) => RunOut::Panic(m),
    }
}

/// turn a case into one the checker accepts: add a catch-all when something is missing, drop a
/// clause reported redundant (guided by the REAL checker on the variable-free rendering)
fn make_accepted(case: &mut Case) -> bool {
    for _ in 0..8 {
        let mut c = case.clone();
        c.is_let = false;
        let rd = render(&c);
        match run_real(&rd.src) {
            Real::Ok => {
                case.is_let = false;
                return true;
            }
            Real::NotExh(_) => case.clauses.push(P::W),
            Real::Redundant(at) => match clause_at(&rd.spans, at) {
                Some((i, _)) => {
                    case.clauses.remove(i);
                    if case.clauses.is_empty() {
                        case.clauses.push(P::W);
                    }
                }
                None => return false,
            },
            _ => return false,
        }
    }
    false
}

struct RtOutcome {
    src: String,
    requests: Vec<String>,
    /// expected driver replies, same order as `requests`
    expect: Vec<String>,
    probes: usize,
    counts: Vec<String>,
    failures: Vec<(String, String, serde_json::Value)>,
    skipped: bool,
}

const MAX_PROBES: usize = 48;

fn run_case(case: &Case, seed: u64, versions: &[PlutusVersion]) -> RtOutcome {
    let mut o = RtOutcome {
        src: String::new(),
        requests: vec![],
        expect: vec![],
        probes: 0,
        counts: vec![],
        failures: vec![],
        skipped: false,
    };
    let mut vg = VarGen { sig: &case.sig, rng: Prng::new(seed), vars: vec![] };
    let clauses: Vec<SP> = case.clauses.iter().map(|p| vg.sp(p, case.scrut, false)).collect();
    let vars = vg.vars.clone();
    // alternatives: a variable-free clause may share the body of the previous variable-free clause
    let mut alias: Vec<usize> = (0..clauses.len()).collect();
    {
        let mut arng = Prng::new(seed ^ 0xA17);
        for i in 1..clauses.len() {
            let mut a = vec![];
            clause_vars(&clauses[i], &mut a);
            let mut b = vec![];
            clause_vars(&clauses[alias[i - 1]], &mut b);
            if a.is_empty() && b.is_empty() && clauses.len() > 2 && arng.chance(1, 3) {
                alias[i] = alias[i - 1];
            }
        }
    }
    if alias.iter().enumerate().any(|(i, a)| *a != i) {
        o.counts.push("feature:alternative-patterns".into());
    }
    let c = RtCase {
        sig: case.sig.clone(),
        scrut: case.scrut,
        core: case.clauses.clone(),
        clauses,
        vars,
        alias,
        origin: case.origin,
    };
    // values
    let all: Vec<&P> = c.core.iter().collect();
    let en = Enum::new(&c.sig, &all);
    if !en.inhabited(c.scrut) {
        o.skipped = true;
        o.counts.push("skip:uninhabited".into());
        return o;
    }
    let depth = all.iter().map(|p| pat_depth(p)).max().unwrap_or(0) + 1;
    let mut memo = HashMap::new();
    let n = en.count(c.scrut, depth, &mut memo);
    let mut values = if n <= 4000 {
        en.values(c.scrut, depth)
    } else {
        let mut over = false;
        en.guided(c.scrut, &all, 4000, &mut over)
    };
    if values.len() > MAX_PROBES {
        // keep a spread that still reaches every clause: first value per first-match index, then evenly
        let mut keep: Vec<usize> = vec![];
        let mut seen = BTreeSet::new();
        for (i, v) in values.iter().enumerate() {
            if seen.insert(first_match(&c.core, v)) {
                keep.push(i);
            }
        }
        let step = values.len() / (MAX_PROBES - keep.len().min(MAX_PROBES - 1));
        let mut i = 0;
        while i < values.len() && keep.len() < MAX_PROBES {
            if !keep.contains(&i) {
                keep.push(i);
            }
            i += step.max(1);
        }
        keep.sort();
        values = keep.into_iter().map(|i| values[i].clone()).collect();
    }
    // expectation: own binder; the Lean spec is asked the same and must agree
    let rk = ranks(&c.sig);
    let sg = wire_sig(&c.sig, &rk);
    let sps = format!("({})", c.clauses.iter().map(|p| sp_wire(&c.sig, &rk, p)).collect::<Vec<_>>().join(" "));
    let mut probes: Vec<(String, String)> = vec![];
    let mut reached = BTreeSet::new();
    for v in &values {
        let mut hit = None;
        for (i, p) in c.clauses.iter().enumerate() {
            let mut bs = vec![];
            if sp_bind(p, v, &mut bs) {
                hit = Some((i, bs));
                break;
            }
        }
        let (i, bs) = match hit {
            Some(x) => x,
            None => {
                o.failures.push((
                    "accepted-but-unmatched".into(),
                    "the checker accepted the clauses but an enumerated value is matched by none".into(),
                    json!({"value": val_src(&c.sig, c.scrut, v)}),
                ));
                continue;
            }
        };
        reached.insert(i);
        let expected = if bs.is_empty() {
            format!("Zz{}", c.alias[i])
        } else {
            format!(
                "Zz{}({})",
                i,
                bs.iter().map(|(x, w)| val_src(&c.sig, c.vars[*x], w)).collect::<Vec<_>>().join(", ")
            )
        };
        probes.push((val_src(&c.sig, c.scrut, v), expected));
        o.requests.push(format!("match first {} {} {}", sg, sps, wire_val(&c.sig, &rk, c.scrut, v)));
        o.expect.push(format!(
            "some {} ({})",
            i,
            bs.iter().map(|(x, w)| format!("({} {})", x, wire_val(&c.sig, &rk, c.vars[*x], w))).collect::<Vec<_>>().join(" ")
        ));
    }
    o.probes = probes.len();
    o.counts.push(format!("clauses-reached:{}/{}", reached.len().min(9), c.clauses.len().min(9)));
    let src = module_src(&c, &probes, seed ^ 0x51);
    o.src = src.clone();
    for ver in versions {
        let vname = format!("{:?}", ver);
        match compile_and_run(&src, *ver) {
            RunOut::Verdicts(vs) => {
                if vs.len() != probes.len() {
                    o.failures.push((
                        format!("probe-count:{}", vname),
                        "the compiled probe returned a list of another length".into(),
                        json!({"expected": probes.len(), "got": vs.len()}),
                    ));
                    continue;
                }
                o.counts.push(format!("ran:{}", vname));
                for (k, ok) in vs.iter().enumerate() {
                    if !ok {
                        o.failures.push((
                            format!("wrong-clause-or-binding:{}:{}", vname, probes[k].0),
                            "the compiled `when` did not return the first matching clause's constructor with the bound sub-values".into(),
                            json!({"value": probes[k].0, "expected": probes[k].1, "plutus": vname}),
                        ));
                        break;
                    }
                }
            }
            RunOut::Rejected(r) => {
                o.counts.push(format!("skip:rejected-with-variables:{}", real_summary(&r, &[]).chars().take(40).collect::<String>()));
                o.skipped = true;
                return o;
            }
            RunOut::EvalError(e) => o.failures.push((
                format!("eval-error:{}", vname),
                "evaluating the compiled probe failed although the clause list was accepted".into(),
                json!({"error": e.chars().take(400).collect::<String>()}),
            )),
            RunOut::Shape(s) => o.failures.push((
                format!("result-shape:{}", vname),
                "the compiled probe did not evaluate to a list of booleans".into(),
                json!({"got": s}),
            )),
            RunOut::Panic(m) => o.failures.push((
                format!("codegen-panic:{}", vname),
                "the code generator / machine panicked on an accepted `when`".into(),
                json!({"message": m.chars().take(400).collect::<String>()}),
            )),
        }
    }
    let _ = c.origin;
    o
}

pub fn run(ctx: &Ctx) -> Report {
    let mut rep = Report::new(
        "c07-run",
        "accepted clause lists with pattern variables compiled by the real code generator and run on the real \
         machine for enumerated scrutinee values: clause taken + bound sub-values (as `f(v) == R_i(bindings)`) \
         against the brute-force binder, which is itself compared with the Lean spec `firstBind`. \
         Non-trivial = distinct (signature, clause list with variables, value)",
    );
    if let Some(p) = arg_str("--src").or(ctx.replay.clone()) {
        // replay: a module with `fn probe() -> List<Bool>`; prints the verdict list per Plutus version
        let src = std::fs::read_to_string(&p).expect("source file");
        for ver in [PlutusVersion::V3, PlutusVersion::V2, PlutusVersion::V1] {
            let out = match compile_and_run(&src, ver) {
                RunOut::Verdicts(v) => {
                    if v.iter().any(|b| !b) {
                        rep.fail(
                            &format!("replay:{:?}", ver),
                            "a probe of the replayed module is false",
                            json!({"source": src}),
                            json!({"verdicts": v}),
                        );
                    }
                    format!("{:?}", v)
                }
                RunOut::Rejected(r) => format!("rejected {:?}", r),
                RunOut::EvalError(e) => format!("eval error {}", e),
                RunOut::Shape(e) => format!("shape {}", e),
                RunOut::Panic(e) => format!("panic {}", e),
            };
            rep.notes.push(format!("{:?}: {}", ver, out));
        }
        rep.evaluations = 1;
        return rep;
    }
    // corpus of minimised past failures first: every probe of every `rt-*.ak` module must be true
    {
        let dir = format!("{}/corpus/C07", root());
        let mut files: Vec<_> = std::fs::read_dir(&dir)
            .map(|rd| {
                rd.filter_map(|e| e.ok())
                    .map(|e| e.path())
                    .filter(|p| {
                        p.file_name().map_or(false, |n| n.to_string_lossy().starts_with("rt-"))
                            && p.extension().map_or(false, |x| x == "ak")
                    })
                    .collect()
            })
            .unwrap_or_default();
        files.sort();
        for f in files {
            let name = f.file_name().unwrap().to_string_lossy().to_string();
            let src = match std::fs::read_to_string(&f) {
                Ok(s) => s,
                Err(_) => continue,
            };
            for ver in [PlutusVersion::V3, PlutusVersion::V2, PlutusVersion::V1] {
                rep.evaluations += 1;
                rep.count("corpus-modules-run");
                let bad = match compile_and_run(&src, ver) {
                    RunOut::Verdicts(v) => {
                        if v.iter().all(|b| *b) {
                            None
                        } else {
                            Some(format!("probe verdicts {:?}", v))
                        }
                    }
                    RunOut::Rejected(r) => Some(format!("rejected {:?}", r)),
                    RunOut::EvalError(e) => Some(format!("eval error {}", e)),
                    RunOut::Shape(e) => Some(format!("shape {}", e)),
                    RunOut::Panic(e) => Some(format!("panic {}", e)),
                };
                if let Some(b) = bad {
                    rep.fail(
                        &format!("rt-corpus:{}:{:?}", name, ver),
                        "corpus module: a compiled `when` does not take the first matching clause (probe is false)",
                        json!({"source": src, "file": name}),
                        json!({"plutus": format!("{:?}", ver), "got": b}),
                    );
                }
            }
        }
    }
    let threads = arg_usize("--threads")
        .unwrap_or_else(|| std::thread::available_parallelism().map(|n| n.get()).unwrap_or(4).min(16));
    let n_family = arg_usize("--n-family").unwrap_or(if ctx.thorough { 3000 } else { 150 });
    let n_random = arg_usize("--n-random").unwrap_or(if ctx.thorough { 5000 } else { 250 });
    let mut rng = Prng::new(ctx.seed ^ 0xC07);
    let mut fam_rng = rng.fork();
    let mut rnd_rng = rng.fork();
    let (blocks, _) = family_blocks();
    let mut cases: Vec<(Case, u64)> = vec![];
    for _ in 0..n_family {
        let b = &blocks[fam_rng.below(blocks.len())];
        let k = fam_rng.next() % b.size;
        cases.push((family_case(b, k, fam_rng.next()), fam_rng.next()));
    }
    for _ in 0..n_random {
        let mut r = rnd_rng.fork();
        cases.push((random_case(&mut r), rnd_rng.next()));
    }
    rep.notes.push(format!(
        "{} family cases + {} random cases, each repaired into an accepted clause list with the real checker \
         (catch-all added / redundant clause dropped); <= {} values per case; Plutus V3 for all, V2 and V1 for every 4th case; {} threads",
        n_family, n_random, MAX_PROBES, threads
    ));
    let idx: Vec<usize> = (0..cases.len()).collect();
    let results: Vec<Option<RtOutcome>> = par_map(&idx, threads, |&i| {
        let (case, seed) = &cases[i];
        let mut case = case.clone();
        if !make_accepted(&mut case) {
            return None;
        }
        let versions: Vec<PlutusVersion> = if i % 4 == 0 {
            vec![PlutusVersion::V3, PlutusVersion::V2, PlutusVersion::V1]
        } else {
            vec![PlutusVersion::V3]
        };
        Some(run_case(&case, *seed, &versions))
    });
    // the Lean spec on the same (clauses, value) pairs
    let mut reqs: Vec<String> = vec![];
    let mut expect: Vec<String> = vec![];
    for r in results.iter().flatten() {
        if r.skipped {
            continue;
        }
        reqs.extend(r.requests.iter().cloned());
        expect.extend(r.expect.iter().cloned());
    }
    let chunks: Vec<&[String]> = reqs.chunks(20000).collect();
    let replies: Vec<String> = par_map(&chunks, threads.min(8), |c| driver::run(c)).into_iter().flatten().collect();
    for (k, r) in replies.iter().enumerate() {
        rep.evaluations += 1;
        rep.nontrivial.insert(reqs[k].clone());
        if *r == expect[k] {
            rep.count("spec-firstBind:agree");
        } else {
            rep.count("spec-firstBind:disagree");
            rep.disagree(&format!("firstbind:{}", reqs[k]), &reqs[k], &format!("brute-force binder: {}", expect[k]), r);
        }
    }
    shape_cases(ctx, &mut rep, threads);
    for (i, r) in results.iter().enumerate() {
        let r = match r {
            Some(r) => r,
            None => {
                rep.count("skip:could-not-make-accepted");
                continue;
            }
        };
        for c in &r.counts {
            rep.count(c);
        }
        if r.skipped {
            continue;
        }
        rep.count("cases-run");
        rep.count(&format!("origin:{}", cases[i].0.origin));
        rep.evaluations += r.probes as u64;
        rep.count(&format!("probes:{}", bucket(r.probes)));
        for (k, what, detail) in &r.failures {
            rep.fail(&format!("{}:{}", k, r.requests.first().cloned().unwrap_or_default()), what, json!({"source": r.src}), detail.clone());
        }
        if i % 97 == 5 {
            rep.sample(json!({"source": r.src, "probes": r.probes}));
        }
    }
    rep
}

// ───────────── list-length dispatch: the ListSwitch impl model against the real code ─────────────

#[derive(Clone, Copy, PartialEq, Debug)]
enum Shape {
    Wild,
    List(usize),
    Tail(usize),
}

fn shape_wire(s: &Shape) -> String {
    match s {
        Shape::Wild => "_".into(),
        Shape::List(n) => format!("(l {})", n),
        Shape::Tail(n) => format!("(t {})", n),
    }
}

fn shape_src(s: &Shape) -> String {
    match s {
        Shape::Wild => "_".into(),
        Shape::List(n) => format!("[{}]", vec!["_"; *n].join(", ")),
        Shape::Tail(n) => format!("[{}, ..]", vec!["_"; *n].join(", ")),
    }
}

fn shape_admits(s: &Shape, l: usize) -> bool {
    match s {
        Shape::Wild => true,
        Shape::List(n) => *n == l,
        Shape::Tail(n) => *n <= l,
    }
}

/// clause lists over `List<Int>` whose patterns only look at the length: ALL accepted lists of
/// <= 4 shapes with lengths <= 3 (thorough) or a sample (quick).  For every length 0..=5 the
/// clause taken by the compiled code is read off (`f(xs) == i` for every i) and compared with
/// the head of `dispatchFixed` (model of the repaired selection in handle_decision_tree).
fn shape_cases(ctx: &Ctx, rep: &mut Report, threads: usize) {
    let mut alphabet = vec![Shape::Wild];
    for n in 0..=3 {
        alphabet.push(Shape::List(n));
    }
    for n in 1..=3 {
        alphabet.push(Shape::Tail(n));
    }
    // accepted = every clause reachable and all lengths covered (decided here by brute force on
    // lengths 0..=5, which is exact for shapes of length <= 3; the real checker must agree)
    let mut lists: Vec<Vec<Shape>> = vec![];
    let k = alphabet.len();
    for len in 1..=4usize {
        let total = k.pow(len as u32);
        for mut code in 0..total {
            let mut cs = vec![];
            for _ in 0..len {
                cs.push(alphabet[code % k]);
                code /= k;
            }
            let firsts: Vec<Option<usize>> = (0..=5).map(|l| cs.iter().position(|s| shape_admits(s, l))).collect();
            let covered = firsts.iter().all(|f| f.is_some());
            let all_reached = (0..cs.len()).all(|i| firsts.iter().any(|f| *f == Some(i)));
            if covered && all_reached {
                lists.push(cs);
            }
        }
    }
    let total = lists.len();
    let _ = ctx;
    rep.notes.push(format!(
        "list-shape family: {} of the {} accepted clause lists of <= 4 length-only list patterns ([], [_], .., [_,_,_], [_, ..], .., [_,_,_, ..], _), lengths 0..=5",
        lists.len(),
        total
    ));
    let outs: Vec<(String, Result<Vec<Option<usize>>, String>)> = par_map(&lists, threads, |cs| {
        let mut src = String::from("fn f(xs: List<Int>) -> Int {\n  when xs is {\n");
        for (i, s) in cs.iter().enumerate() {
            src.push_str(&format!("    {} -> {}\n", shape_src(s), i));
        }
        src.push_str("  }\n}\n\nfn probe() -> List<Bool> {\n  [\n");
        for l in 0..=5usize {
            let v = format!("[{}]", (0..l).map(|x| x.to_string()).collect::<Vec<_>>().join(", "));
            for i in 0..cs.len() {
                src.push_str(&format!("    f({}) == {},\n", v, i));
            }
        }
        src.push_str("  ]\n}\n");
        let r = match compile_and_run(&src, PlutusVersion::V3) {
            RunOut::Verdicts(v) if v.len() == 6 * cs.len() => {
                Ok((0..6).map(|l| (0..cs.len()).find(|i| v[l * cs.len() + i])).collect())
            }
            RunOut::Verdicts(v) => Err(format!("{} verdicts", v.len())),
            RunOut::Rejected(r) => Err(format!("rejected {:?}", r)),
            RunOut::EvalError(e) => Err(format!("eval error {}", e)),
            RunOut::Shape(e) => Err(format!("shape {}", e)),
            RunOut::Panic(e) => Err(format!("panic {}", e)),
        };
        (src, r)
    });
    let mut reqs = vec![];
    for cs in &lists {
        let w = format!("({})", cs.iter().map(shape_wire).collect::<Vec<_>>().join(" "));
        for l in 0..=5 {
            reqs.push(format!("match listswitch fixed {} {}", w, l));
            reqs.push(format!("match listswitch unfixed {} {}", w, l));
        }
    }
    let replies = driver::run(&reqs);
    let head = |r: &str| -> Option<usize> {
        r.trim_start_matches('(').trim_end_matches(')').split(' ').next().and_then(|x| x.parse().ok())
    };
    for (ci, cs) in lists.iter().enumerate() {
        let (src, real) = &outs[ci];
        let real = match real {
            Ok(r) => r,
            Err(e) => {
                rep.fail(
                    &format!("shape-run:{:?}", cs),
                    "an accepted length-only list `when` could not be compiled and run",
                    json!({"source": src}),
                    json!({"error": e}),
                );
                continue;
            }
        };
        for l in 0..=5usize {
            rep.evaluations += 1;
            let key = format!("{:?}@{}", cs, l);
            rep.nontrivial.insert(key.clone());
            let expect = cs.iter().position(|s| shape_admits(s, l));
            let fixed = head(&replies[(ci * 6 + l) * 2]);
            let unfixed = head(&replies[(ci * 6 + l) * 2 + 1]);
            if fixed != unfixed {
                rep.count("shape:order-sensitive(fixed-model!=unfixed-model)");
                if real[l] == unfixed {
                    rep.count("shape:real=unfixed-model");
                }
            }
            if real[l] != expect {
                rep.fail(
                    &format!("shape-first-match:{}", key),
                    "compiled length-only list `when`: the clause taken is not the first whose pattern admits the length",
                    json!({"source": src, "length": l}),
                    json!({"real": real[l], "first-match": expect, "model-fixed": fixed, "model-unfixed": unfixed}),
                );
            }
            if real[l] == fixed {
                rep.count("shape:real=fixed-model");
            } else if real[l] == expect {
                // (when the real code is wrong the failure above is the report; the model of the
                // repaired selection is proved to give the first match)
                rep.disagree(
                    &format!("listswitch:{}", key),
                    &reqs[(ci * 6 + l) * 2],
                    &format!("{:?}", real[l]),
                    &format!("{:?}", fixed),
                );
            }
        }
    }
}
