//! Canonical wire format (DESIGN.md appendix B), written by the harness's own
//! serialiser — not by the repo's pretty-printer, which is itself under test.
use num_bigint::BigInt;
use pallas_primitives::alonzo::PlutusData;
use uplc::ast::{Constant, DeBruijn, Name, NamedDeBruijn, Term, Type};
use uplc::machine::value::from_pallas_bigint;

pub fn hex(b: &[u8]) -> String {
    format!("#{}", hex::encode(b))
}

pub fn ty(t: &Type) -> String {
    match t {
        Type::Bool => "bo".into(),
        Type::Integer => "i".into(),
        Type::String => "st".into(),
        Type::ByteString => "bs".into(),
        Type::Unit => "u".into(),
        Type::Data => "da".into(),
        Type::Bls12_381G1Element => "g1".into(),
        Type::Bls12_381G2Element => "g2".into(),
        Type::Bls12_381MlResult => "ml".into(),
        Type::List(t) => format!("(li {})", ty(t)),
        Type::Pair(a, b) => format!("(pa {} {})", ty(a), ty(b)),
    }
}

/// abstract constructor index of a `Constr` (None if the tag is in no range and
/// there is no `any_constructor`)
pub fn constr_index(tag: u64, any: Option<u64>) -> Option<u64> {
    if (121..=127).contains(&tag) {
        Some(tag - 121)
    } else if (1280..=1400).contains(&tag) {
        Some(tag - 1280 + 7)
    } else {
        any
    }
}

pub fn data(d: &PlutusData) -> String {
    match d {
        PlutusData::Constr(c) => {
            let ix = match constr_index(c.tag, c.any_constructor) {
                Some(i) => i.to_string(),
                None => format!("?tag{}", c.tag),
            };
            let mut s = format!("(C {}", ix);
            for f in c.fields.iter() {
                s.push(' ');
                s.push_str(&data(f));
            }
            s.push(')');
            s
        }
        PlutusData::Map(m) => {
            let mut s = String::from("(M");
            for (k, v) in m.iter() {
                s.push_str(&format!(" ({} {})", data(k), data(v)));
            }
            s.push(')');
            s
        }
        PlutusData::Array(a) => {
            let mut s = String::from("(L");
            for x in a.iter() {
                s.push(' ');
                s.push_str(&data(x));
            }
            s.push(')');
            s
        }
        PlutusData::BigInt(i) => format!("(I {})", from_pallas_bigint(i)),
        PlutusData::BoundedBytes(b) => {
            let v: Vec<u8> = b.clone().into();
            format!("(B {})", hex(&v))
        }
    }
}

pub fn constant(c: &Constant) -> String {
    match c {
        Constant::Integer(i) => format!("(i {})", i),
        Constant::ByteString(b) => format!("(bs {})", hex(b)),
        Constant::String(s) => format!("(st {})", hex(s.as_bytes())),
        Constant::Unit => "u".into(),
        Constant::Bool(b) => format!("(bo {})", if *b { 1 } else { 0 }),
        Constant::ProtoList(t, xs) => {
            let mut s = format!("(li {}", ty(t));
            for x in xs {
                s.push(' ');
                s.push_str(&constant(x));
            }
            s.push(')');
            s
        }
        Constant::ProtoPair(a, b, x, y) => {
            format!("(pa {} {} {} {})", ty(a), ty(b), constant(x), constant(y))
        }
        Constant::Data(d) => format!("(da {})", data(d)),
        Constant::Bls12_381G1Element(p) => {
            use uplc::machine::runtime::Compressable;
            format!("(g1 {})", hex(&p.compress()))
        }
        Constant::Bls12_381G2Element(p) => {
            use uplc::machine::runtime::Compressable;
            format!("(g2 {})", hex(&p.compress()))
        }
        Constant::Bls12_381MlResult(_) => "(ml #)".into(),
    }
}

pub trait Binder {
    fn atoms(&self) -> String;
}
impl Binder for NamedDeBruijn {
    fn atoms(&self) -> String {
        format!("{} {}", hex(self.text.as_bytes()), self.index.inner())
    }
}
impl Binder for Name {
    fn atoms(&self) -> String {
        let u: isize = self.unique.into();
        format!("{} {}", hex(self.text.as_bytes()), u)
    }
}
impl Binder for DeBruijn {
    fn atoms(&self) -> String {
        format!("{}", self.inner())
    }
}

pub fn term<T: Binder>(t: &Term<T>) -> String {
    let mut s = String::new();
    term_into(t, &mut s);
    s
}

fn term_into<T: Binder>(t: &Term<T>, s: &mut String) {
    match t {
        Term::Var(n) => {
            s.push_str("(v ");
            s.push_str(&n.atoms());
            s.push(')');
        }
        Term::Lambda { parameter_name, body } => {
            s.push_str("(l ");
            s.push_str(&parameter_name.atoms());
            s.push(' ');
            term_into(body, s);
            s.push(')');
        }
        Term::Apply { function, argument } => {
            s.push_str("(a ");
            term_into(function, s);
            s.push(' ');
            term_into(argument, s);
            s.push(')');
        }
        Term::Delay(t) => {
            s.push_str("(d ");
            term_into(t, s);
            s.push(')');
        }
        Term::Force(t) => {
            s.push_str("(f ");
            term_into(t, s);
            s.push(')');
        }
        Term::Error => s.push('e'),
        Term::Builtin(b) => {
            s.push_str(&format!("(b {:?})", b));
        }
        Term::Constant(c) => {
            s.push_str("(c ");
            s.push_str(&constant(c));
            s.push(')');
        }
        Term::Constr { tag, fields } => {
            s.push_str(&format!("(k {}", tag));
            for f in fields {
                s.push(' ');
                term_into(f, s);
            }
            s.push(')');
        }
        Term::Case { constr, branches } => {
            s.push_str("(s ");
            term_into(constr, s);
            for b in branches {
                s.push(' ');
                term_into(b, s);
            }
            s.push(')');
        }
    }
}

#[allow(dead_code)]
pub fn bigint(i: &BigInt) -> String {
    i.to_string()
}
