//! Runs the native Lean driver on a batch of request lines.
use std::io::Write;
use std::process::{Command, Stdio};

pub fn driver_path() -> String {
    std::env::var("VERIF_DRIVER").unwrap_or_else(|_| {
        let here = std::env::var("VERIF_ROOT").unwrap_or_else(|_| "/verif".into());
        format!("{}/lean/.lake/build/bin/driver", here)
    })
}

/// `requests[i]` is "<sub> <fields…>" (without the case id).  Returns reply i.
pub fn run(requests: &[String]) -> Vec<String> {
    if requests.is_empty() {
        return vec![];
    }
    let mut child = Command::new(driver_path())
        .stdin(Stdio::piped())
        .stdout(Stdio::piped())
        .spawn()
        .expect("cannot start the Lean driver (run setup.sh)");
    let mut stdin = child.stdin.take().unwrap();
    let input: String = requests
        .iter()
        .enumerate()
        .map(|(i, r)| {
            let mut it = r.splitn(2, ' ');
            let sub = it.next().unwrap();
            let rest = it.next().unwrap_or("");
            format!("{} {} {}\n", sub, i, rest)
        })
        .collect();
    let writer = std::thread::spawn(move || {
        let _ = stdin.write_all(input.as_bytes());
    });
    let out = child.wait_with_output().expect("driver failed");
    writer.join().unwrap();
    let text = String::from_utf8_lossy(&out.stdout);
    let mut replies = vec![String::from("<no-reply>"); requests.len()];
    for line in text.lines() {
        let mut it = line.splitn(2, ' ');
        if let (Some(id), Some(rest)) = (it.next(), it.next()) {
            if let Ok(i) = id.parse::<usize>() {
                if i < replies.len() {
                    replies[i] = rest.to_string();
                }
            }
        }
    }
    replies
}
