//! Seeded generator of stdlib-free Aiken *projects* (C09, C17): several
//! modules — shared types, shared module constants, shared helper functions
//! (generic, recursive, mutually recursive), fuzzers, test modules with unit and
//! property tests that all refer to the same constants / helpers / types, and
//! validators — written to a scratch directory under /tmp together with an
//! `aiken.toml`, so that the REAL `aiken_project::Project` compiles them.
//!
//! Also: a driver around `Project` (`build`, `check`) that captures the
//! observables (blueprint bytes, hex of every test program, test results).
use crate::prng::Prng;
use aiken_lang::{
    ast::{TraceLevel, Tracing},
    test_framework::{Test, TestResult},
};
use aiken_project::{
    options::BlueprintExport,
    telemetry::{CoverageMode, Event, EventListener},
    Project,
};
use std::{
    cell::RefCell,
    collections::BTreeMap,
    path::{Path, PathBuf},
    rc::Rc,
};
use uplc::ast::{DeBruijn, Name, Program};

#[derive(Clone, Debug)]
pub struct GenProject {
    pub name: String,
    /// (relative path, source)
    pub files: Vec<(String, String)>,
}

impl GenProject {
    pub fn to_json(&self) -> serde_json::Value {
        serde_json::json!({
            "name": self.name,
            "files": self.files.iter().map(|(p, s)| serde_json::json!({"path": p, "source": s})).collect::<Vec<_>>()
        })
    }
    pub fn from_json(v: &serde_json::Value) -> Option<GenProject> {
        let name = v.get("name")?.as_str()?.to_string();
        let mut files = vec![];
        for f in v.get("files")?.as_array()? {
            files.push((f.get("path")?.as_str()?.to_string(), f.get("source")?.as_str()?.to_string()));
        }
        Some(GenProject { name, files })
    }
}

const FZ: &str = r#"use aiken/builtin
use kit/types.{Pt}

pub fn int() -> Fuzzer<Int> {
  fn(prng: PRNG) -> Option<(PRNG, Int)> {
    when prng is {
      Seeded { seed, choices } -> {
        let choice =
          seed
            |> builtin.index_bytearray(0)

        Some(
          (
            Seeded {
              seed: builtin.blake2b_256(seed),
              choices: builtin.cons_bytearray(choice, choices),
            },
            choice,
          ),
        )
      }

      Replayed { cursor, choices } ->
        if cursor >= 1 {
          let cursor = cursor - 1
          Some(
            (
              Replayed { choices, cursor },
              builtin.index_bytearray(choices, cursor),
            ),
          )
        } else {
          None
        }
    }
  }
}

pub fn constant(a: a) -> Fuzzer<a> {
  fn(s0) { Some((s0, a)) }
}

pub fn and_then(fuzz_a: Fuzzer<a>, f: fn(a) -> Fuzzer<b>) -> Fuzzer<b> {
  fn(s0) {
    when fuzz_a(s0) is {
      Some((s1, a)) -> f(a)(s1)
      None -> None
    }
  }
}

pub fn map(fuzz_a: Fuzzer<a>, f: fn(a) -> b) -> Fuzzer<b> {
  fn(s0) {
    when fuzz_a(s0) is {
      Some((s1, a)) -> Some((s1, f(a)))
      None -> None
    }
  }
}

pub fn map2(fuzz_a: Fuzzer<a>, fuzz_b: Fuzzer<b>, f: fn(a, b) -> c) -> Fuzzer<c> {
  fn(s0) {
    when fuzz_a(s0) is {
      Some((s1, a)) ->
        when fuzz_b(s1) is {
          Some((s2, b)) -> Some((s2, f(a, b)))
          None -> None
        }
      None -> None
    }
  }
}

pub fn bool() -> Fuzzer<Bool> {
  int() |> map(fn(n) { n % 2 == 0 })
}

pub fn pair(fuzz_a: Fuzzer<a>, fuzz_b: Fuzzer<b>) -> Fuzzer<(a, b)> {
  map2(fuzz_a, fuzz_b, fn(a, b) { (a, b) })
}

pub fn list_of(n: Int, f: Fuzzer<a>) -> Fuzzer<List<a>> {
  if n <= 0 {
    constant([])
  } else {
    map2(f, list_of(n - 1, f), fn(x, xs) { [x, ..xs] })
  }
}

pub fn dep_list() -> Fuzzer<List<Int>> {
  int() |> and_then(fn(n) { list_of(n % 5, int()) })
}

pub fn pt() -> Fuzzer<Pt> {
  map2(int(), int(), fn(x, y) { Pt { x, y } })
}
"#;

const TYPES: &[&str] = &[
    "pub type Color {\n  Red\n  Green\n  Blue\n}\n",
    "pub type Shape {\n  Circle(Int)\n  Rect { w: Int, h: Int }\n}\n",
    "pub type Pt {\n  x: Int,\n  y: Int,\n}\n",
    "pub type Box<a> {\n  inner: a,\n}\n",
    "pub type Action {\n  Deposit(Int)\n  Withdraw { amount: Int, to: ByteArray }\n  Close\n}\n",
];

const HELPERS: &[&str] = &[
    "pub fn sum(xs: List<Int>) -> Int {\n  when xs is {\n    [] -> 0\n    [x, ..rest] -> x + sum(rest)\n  }\n}\n",
    "pub fn length(xs: List<a>) -> Int {\n  when xs is {\n    [] -> 0\n    [_, ..rest] -> 1 + length(rest)\n  }\n}\n",
    "pub fn map(xs: List<a>, f: fn(a) -> b) -> List<b> {\n  when xs is {\n    [] -> []\n    [x, ..rest] -> [f(x), ..map(rest, f)]\n  }\n}\n",
    "pub fn foldl(xs: List<a>, zero: b, f: fn(b, a) -> b) -> b {\n  when xs is {\n    [] -> zero\n    [x, ..rest] -> foldl(rest, f(zero, x), f)\n  }\n}\n",
    "pub fn area(s: Shape) -> Int {\n  when s is {\n    Circle(r) -> 3 * r * r\n    Rect { w, h } -> w * h\n  }\n}\n",
    "pub fn is_even(n: Int) -> Bool {\n  if n <= 0 {\n    True\n  } else {\n    is_odd(n - 1)\n  }\n}\n",
    "pub fn is_odd(n: Int) -> Bool {\n  if n <= 0 {\n    False\n  } else {\n    is_even(n - 1)\n  }\n}\n",
    "pub fn lookup(xs: List<(Int, ByteArray)>, k: Int) -> Option<ByteArray> {\n  when xs is {\n    [] -> None\n    [(k2, v), ..rest] ->\n      if k2 == k {\n        Some(v)\n      } else {\n        lookup(rest, k)\n      }\n  }\n}\n",
    "pub fn color_code(c: Color) -> Int {\n  when c is {\n    Red -> 1\n    Green -> 2\n    Blue -> 3\n  }\n}\n",
    "pub fn unbox(b: Box<a>) -> a {\n  b.inner\n}\n",
    "pub fn apply_action(balance: Int, a: Action) -> Int {\n  when a is {\n    Deposit(n) -> balance + n\n    Withdraw { amount, .. } -> balance - amount\n    Close -> 0\n  }\n}\n",
    "pub fn norm1(p: Pt) -> Int {\n  let ax =\n    if p.x < 0 {\n      0 - p.x\n    } else {\n      p.x\n    }\n  let ay =\n    if p.y < 0 {\n      0 - p.y\n    } else {\n      p.y\n    }\n  ax + ay\n}\n",
];

fn hexbytes(r: &mut Prng, n: usize) -> String {
    let mut s = String::from("#\"");
    for _ in 0..n {
        s.push_str(&format!("{:02x}", r.below(256)));
    }
    s.push('"');
    s
}

fn shuffle<T>(r: &mut Prng, xs: &mut Vec<T>) {
    for i in (1..xs.len()).rev() {
        let j = r.below(i + 1);
        xs.swap(i, j);
    }
}

/// values the generated constants take (needed to write tests with known answers)
#[derive(Clone, Debug)]
pub struct Consts {
    pub limit: i64,
    pub owner: String,
    pub primes: Vec<i64>,
    pub table: Vec<(i64, String)>,
    pub pairs: Vec<(i64, i64)>,
    pub nested: Vec<Vec<i64>>,
    pub shapes: Vec<(bool, i64, i64)>, // (is_rect, a, b)
}

fn gen_consts(r: &mut Prng) -> Consts {
    let np = 2 + r.below(5);
    let primes_all = [2i64, 3, 5, 7, 11, 13, 17, 19];
    let primes = primes_all[..np].to_vec();
    let nt = 1 + r.below(4);
    let table = (0..nt)
        .map(|i| {
            let n = 1 + r.below(4);
            (i as i64 + 1, hexbytes(r, n))
        })
        .collect();
    let pairs = (0..1 + r.below(3)).map(|i| (i as i64, r.range(0, 50))).collect();
    let nested = (0..1 + r.below(3)).map(|_| (0..r.below(4)).map(|_| r.range(0, 9)).collect()).collect();
    let shapes = (0..1 + r.below(3)).map(|_| (r.chance(1, 2), r.range(1, 6), r.range(1, 6))).collect();
    let on = 4 + r.below(25);
    Consts { limit: r.range(100, 1000), owner: hexbytes(r, on), primes, table, pairs, nested, shapes }
}

fn list_lit<T: std::fmt::Display>(xs: &[T]) -> String {
    format!("[{}]", xs.iter().map(|x| x.to_string()).collect::<Vec<_>>().join(", "))
}

fn shape_lit(s: &(bool, i64, i64)) -> String {
    if s.0 {
        format!("Rect {{ w: {}, h: {} }}", s.1, s.2)
    } else {
        format!("Circle({})", s.1)
    }
}

fn shape_area(s: &(bool, i64, i64)) -> i64 {
    if s.0 {
        s.1 * s.2
    } else {
        3 * s.1 * s.1
    }
}

fn consts_module(r: &mut Prng, c: &Consts) -> String {
    let mut defs = vec![
        format!("pub const limit: Int = {}\n", c.limit),
        format!("pub const owner: ByteArray = {}\n", c.owner),
        format!("pub const primes: List<Int> = {}\n", list_lit(&c.primes)),
        format!(
            "pub const table: List<(Int, ByteArray)> =\n  {}\n",
            list_lit(&c.table.iter().map(|(k, v)| format!("({k}, {v})")).collect::<Vec<_>>())
        ),
        format!(
            "pub const pairs: Pairs<Int, Int> =\n  {}\n",
            list_lit(&c.pairs.iter().map(|(k, v)| format!("Pair({k}, {v})")).collect::<Vec<_>>())
        ),
        "pub const origin: Pt = Pt { x: 0, y: 0 }\n".to_string(),
        format!(
            "pub const nested: List<List<Int>> = {}\n",
            list_lit(&c.nested.iter().map(|xs| list_lit(xs)).collect::<Vec<_>>())
        ),
        "pub const doubled: Int = limit * 2\n".to_string(),
        format!("pub const shapes: List<Shape> = {}\n", list_lit(&c.shapes.iter().map(shape_lit).collect::<Vec<_>>())),
        "pub const greeting: String = @\"hello\"\n".to_string(),
        format!("pub const corner: (Int, ByteArray) = ({}, {})\n", c.limit, c.owner),
    ];
    // a constant may only refer to constants defined above it: keep `limit` first
    let first = defs.remove(0);
    shuffle(r, &mut defs);
    defs.insert(0, first);
    format!("use kit/types.{{Circle, Pt, Rect, Shape}}\n\n{}", defs.join("\n"))
}

const DERIVED: &str = r#"use kit/consts
use kit/helpers

pub const total: Int = helpers.sum(consts.primes)

pub const areas: List<Int> = helpers.map(consts.shapes, helpers.area)

pub const parity: Bool = helpers.is_even(10)

pub fn within_limit(n: Int) -> Bool {
  n <= consts.limit
}

pub fn owner_is(k: ByteArray) -> Bool {
  k == consts.owner
}

pub fn scaled(k: Int) -> List<Int> {
  helpers.map(consts.primes, fn(p) { p * k })
}
"#;

/// one unit-test body (an expression of type Bool that is `True` unless `broken`)
fn unit_body(r: &mut Prng, c: &Consts, broken: bool) -> String {
    let total: i64 = c.primes.iter().sum();
    let off = if broken { 1 } else { 0 };
    match r.below(17) {
        0 => format!("helpers.sum(consts.primes) + {off} == derived.total"),
        1 => format!("helpers.length(consts.table) == {}", c.table.len() as i64 + off),
        2 => {
            let (a, b) = (r.range(1, 9), r.range(1, 9));
            format!("helpers.area(Rect {{ w: {a}, h: {b} }}) == {}", a * b + off)
        }
        3 => {
            let n = 2 * r.range(0, 6) + off;
            format!("helpers.is_even({n})")
        }
        4 => {
            let (k, v) = &c.table[r.below(c.table.len())];
            if broken {
                format!("helpers.lookup(consts.table, {k}) == None")
            } else {
                format!("helpers.lookup(consts.table, {k}) == Some({v})")
            }
        }
        5 => format!("consts.origin == Pt {{ x: {off}, y: 0 }}"),
        6 => {
            let k = r.range(2, 5);
            format!(
                "derived.scaled({k}) == {}",
                list_lit(&c.primes.iter().map(|p| p * k + off).collect::<Vec<_>>())
            )
        }
        7 => {
            let n: i64 = c.nested.iter().map(|xs| xs.iter().sum::<i64>()).sum();
            format!("helpers.foldl(consts.nested, 0, fn(acc, xs) {{ acc + helpers.sum(xs) }}) == {}", n + off)
        }
        8 => format!("derived.within_limit({})", if broken { c.limit + 1 } else { r.range(0, c.limit) }),
        9 => format!("helpers.unbox(Box {{ inner: consts.limit }}) == {}", c.limit + off),
        10 => {
            let n: i64 = c.shapes.iter().map(shape_area).sum();
            format!("helpers.sum(derived.areas) == {}", n + off)
        }
        11 => {
            let amount = r.range(1, 50);
            format!(
                "helpers.apply_action(100, Withdraw {{ amount: {amount}, to: consts.owner }}) == {}",
                100 - amount + off
            )
        }
        12 => format!(
            "consts.pairs == {}",
            list_lit(&c.pairs.iter().map(|(k, v)| format!("Pair({k}, {})", v + off)).collect::<Vec<_>>())
        ),
        13 => format!("consts.doubled == {} && derived.total == {}", 2 * c.limit, total + off),
        14 => format!("helpers.color_code(Blue) + helpers.norm1(Pt {{ x: -2, y: 3 }}) == {}", 8 + off),
        15 => format!("derived.parity == helpers.is_even({}) && helpers.is_odd(3)", 4 + off),
        _ => format!("consts.corner.1st == consts.limit && derived.owner_is(consts.corner.2nd) == {}", if broken { "False" } else { "True" }),
    }
}

/// (argument with `via`, body that holds unless `broken`)
fn prop_body(r: &mut Prng, c: &Consts, broken: bool) -> (String, String) {
    match r.below(6) {
        0 => ("n via fz.int()".into(), if broken { "helpers.is_even(n)".into() } else { "helpers.is_even(n * 2)".into() }),
        1 => (
            "xs via fz.list_of(3, fz.int())".into(),
            if broken { "helpers.sum(xs) <= 300".into() } else { format!("helpers.sum(xs) <= consts.limit * 10 + {}", c.limit) },
        ),
        2 => (
            "p via fz.pt()".into(),
            if broken { "helpers.norm1(p) < 200".into() } else { "helpers.norm1(p) == helpers.norm1(Pt { x: p.y, y: p.x })".into() },
        ),
        3 => (
            "t via fz.pair(fz.int(), fz.bool())".into(),
            if broken { "t.2nd || t.1st < 100".into() } else { "derived.within_limit(t.1st - 300) || t.2nd".into() },
        ),
        4 => (
            "xs via fz.dep_list()".into(),
            if broken {
                "helpers.length(xs) < 3".into()
            } else {
                "helpers.length(helpers.map(xs, fn(x) { x + consts.limit })) == helpers.length(xs)".into()
            },
        ),
        _ => (
            "n via fz.int()".into(),
            if broken {
                "helpers.apply_action(n, Deposit(1)) < 200".into()
            } else {
                format!("helpers.apply_action(n, Deposit(consts.limit)) == n + {}", c.limit)
            },
        ),
    }
}

const TEST_IMPORTS: &str = "use fz\nuse kit/consts\nuse kit/derived\nuse kit/helpers\nuse kit/types.{Blue, Box, Deposit, Pt, Rect, Withdraw}\n";

fn test_module(r: &mut Prng, c: &Consts, idx: usize, n_tests: usize) -> String {
    let mut defs = vec![];
    for i in 0..n_tests {
        let kind = r.below(10);
        // 0..5 unit ok, 6 unit expected-failure, 7 unit genuinely failing, 8 property ok, 9 property failing
        let d = match kind {
            0..=5 => format!("test u{idx}_{i}() {{\n  {}\n}}\n", unit_body(r, c, false)),
            6 => format!("test u{idx}_{i}() fail {{\n  {}\n}}\n", unit_body(r, c, true)),
            7 => format!("test u{idx}_{i}() {{\n  {}\n}}\n", unit_body(r, c, true)),
            8 => {
                let (arg, body) = prop_body(r, c, false);
                format!("test p{idx}_{i}({arg}) {{\n  {body}\n}}\n")
            }
            _ => {
                let (arg, body) = prop_body(r, c, true);
                let otf = *r.pick(&["", " fail", " fail once"]);
                format!("test p{idx}_{i}({arg}){otf} {{\n  {body}\n}}\n")
            }
        };
        defs.push(d);
    }
    // a test whose EVALUATION ends in a machine error (not merely `False`), right before ordinary
    // passing tests: whatever an aborted run leaves behind on its worker (uncharged steps, traces)
    // must not reach the test that worker runs next
    let odd = 2 * r.range(0, 6) + 1;
    defs.insert(
        r.below(defs.len() + 1),
        format!("test boom{idx}_a() fail {{\n  if helpers.is_even({odd}) {{\n    True\n  }} else {{\n    fail @\"boom\"\n  }}\n}}\n"),
    );
    defs.push(format!("test boom{idx}_b() fail {{\n  if helpers.is_even({odd}) {{\n    True\n  }} else {{\n    fail @\"boom\"\n  }}\n}}\n"));
    // a local helper + a local constant shared by two tests of this module
    defs.push(format!("const local_k: List<Int> = {}\n", list_lit(&[idx as i64, c.limit, 7])));
    defs.push("fn twice(n: Int) -> Int {\n  n * 2\n}\n".to_string());
    defs.push(format!("test loc{idx}_a() {{\n  twice(helpers.sum(local_k)) == {}\n}}\n", 2 * (idx as i64 + c.limit + 7)));
    defs.push(format!("test loc{idx}_b() {{\n  helpers.length(local_k) == 3 && twice(consts.limit) == consts.doubled\n}}\n"));
    shuffle(r, &mut defs);
    format!("{TEST_IMPORTS}\n{}", defs.join("\n"))
}

fn validator_module(r: &mut Prng, c: &Consts, idx: usize) -> String {
    let mut defs = vec![];
    defs.push(format!("pub type Datum{idx} {{\n  owner: ByteArray,\n  balance: Int,\n}}\n"));
    let with_params = r.chance(2, 3);
    let params = if with_params { "(min: Int, tag: ByteArray)" } else { "" };
    let min = if with_params { "min" } else { "consts.limit" };
    let tagc = if with_params { "d.owner != tag" } else { "True" };
    let mint = match r.below(3) {
        0 => "  mint(redeemer: Pt, _policy: ByteArray, _tx: Data) {\n    helpers.norm1(redeemer) <= consts.limit\n  }\n\n".to_string(),
        1 => "  mint(redeemer: List<Shape>, _policy: ByteArray, _tx: Data) {\n    helpers.sum(helpers.map(redeemer, helpers.area)) == helpers.sum(derived.areas)\n  }\n\n".to_string(),
        _ => String::new(),
    };
    defs.push(format!(
        "validator vault{idx}{params} {{\n  spend(datum: Option<Datum{idx}>, redeemer: Action, _ref: Data, _tx: Data) {{\n    expect Some(d) = datum\n    helpers.apply_action(d.balance, redeemer) >= {min} && derived.owner_is(d.owner) && {tagc}\n  }}\n\n{mint}  else(_) {{\n    fail\n  }}\n}}\n"
    ));
    if r.chance(1, 2) {
        defs.push(format!(
            "validator gate{idx}(colors: List<Color>) {{\n  withdraw(redeemer: Box<Int>, _account: Data, _tx: Data) {{\n    helpers.unbox(redeemer) == helpers.sum(helpers.map(colors, helpers.color_code)) + derived.total\n  }}\n\n  else(_) {{\n    fail\n  }}\n}}\n"
        ));
    }
    // tests calling the validator's handler
    let args = if with_params { format!("{}, #\"00\", ", c.limit) } else { String::new() };
    defs.push(format!(
        "test vault{idx}_ok() {{\n  vault{idx}.spend({args}Some(Datum{idx} {{ owner: consts.owner, balance: {} }}), Deposit(1), \"\", \"\")\n}}\n",
        c.limit
    ));
    defs.push(format!(
        "test vault{idx}_low() fail {{\n  vault{idx}.spend({args}Some(Datum{idx} {{ owner: consts.owner, balance: 1 }}), Deposit(1), \"\", \"\")\n}}\n"
    ));
    shuffle(r, &mut defs);
    format!(
        "use kit/consts\nuse kit/derived\nuse kit/helpers\nuse kit/types.{{Action, Box, Color, Deposit, Pt, Shape}}\n\n{}",
        defs.join("\n")
    )
}

pub fn toml(name: &str) -> String {
    format!("name = \"verif/{name}\"\nversion = \"0.0.0\"\nlicense = \"Apache-2.0\"\ndescription = \"generated\"\n")
}

pub fn gen_project(r: &mut Prng, name: &str) -> GenProject {
    let c = gen_consts(r);
    let mut files = vec![("aiken.toml".to_string(), toml(name))];
    let mut types = TYPES.iter().map(|s| s.to_string()).collect::<Vec<_>>();
    shuffle(r, &mut types);
    files.push(("lib/kit/types.ak".into(), types.join("\n")));
    let mut helpers = HELPERS.iter().map(|s| s.to_string()).collect::<Vec<_>>();
    shuffle(r, &mut helpers);
    files.push((
        "lib/kit/helpers.ak".into(),
        format!(
            "use kit/types.{{Action, Blue, Box, Circle, Close, Color, Deposit, Green, Pt, Rect, Red, Shape, Withdraw}}\n\n{}",
            helpers.join("\n")
        ),
    ));
    files.push(("lib/kit/consts.ak".into(), consts_module(r, &c)));
    files.push(("lib/kit/derived.ak".into(), DERIVED.to_string()));
    files.push(("lib/fz.ak".into(), FZ.to_string()));
    let n_test_modules = 2 + r.below(3);
    for i in 0..n_test_modules {
        let n = 3 + r.below(6);
        files.push((format!("lib/t{i}.ak"), test_module(r, &c, i, n)));
    }
    let n_validators = 1 + r.below(3);
    for i in 0..n_validators {
        files.push((format!("validators/v{i}.ak"), validator_module(r, &c, i)));
    }
    // the same validator NAME in several modules (names are module-scoped): the blueprint's order
    // of validators must not fall back on the iteration order of a hash map when names tie
    for k in 0..4 {
        files.push((
            format!("validators/m{k}.ak"),
            format!("validator main {{\n  spend(_datum: Option<Data>, redeemer: Int, _oref: Data, _tx: Data) {{\n    redeemer > {}\n  }}\n\n  else(_) {{\n    fail\n  }}\n}}\n", k + 1),
        ));
    }
    // two validators sharing the same `expect` statements (same text => same compiler-generated
    // trace-and-fail helper under compact / verbose) but FIRST USING them in a different order: what a
    // re-used generator emits for the second must not depend on the first
    let stmts = ["    expect Some(payload) = datum\n    expect n: Int = payload\n", "    expect action: Action = redeemer\n"];
    let flip = r.chance(1, 2);
    for (i, name) in ["sxa", "sxb"].iter().enumerate() {
        let first_second = if (i == 0) ^ flip { (stmts[0], stmts[1]) } else { (stmts[1], stmts[0]) };
        let cmp = if i == 0 { ">" } else { ">=" };
        files.push((
            format!("validators/{name}.ak"),
            format!(
                "use kit/helpers\nuse kit/types.{{Action}}\n\nvalidator {name} {{\n  spend(datum: Option<Data>, redeemer: Data, _oref: Data, _tx: Data) {{\n{}{}    helpers.apply_action(n, action) {cmp} n\n  }}\n\n  else(_) {{\n    fail\n  }}\n}}\n",
                first_second.0, first_second.1
            ),
        ));
    }
    GenProject { name: name.to_string(), files }
}

extern "C" {
    fn dup2(oldfd: i32, newfd: i32) -> i32;
}

/// the shrinker prints progress lines on stderr; send them to /dev/null
pub fn silence_stderr() {
    use std::os::unix::io::AsRawFd;
    if std::env::var("VERIF_KEEP_STDERR").is_ok() {
        return;
    }
    if let Ok(f) = std::fs::OpenOptions::new().write(true).open("/dev/null") {
        unsafe {
            dup2(f.as_raw_fd(), 2);
        }
    }
}

// ------------------------------------------------------------------ scratch directories

pub fn scratch_root() -> PathBuf {
    let p = std::env::temp_dir().join(format!("verif-c0917-{}", std::process::id()));
    std::fs::create_dir_all(&p).unwrap();
    p
}

pub fn cleanup() {
    let _ = std::fs::remove_dir_all(scratch_root());
}

/// write the project; `order` permutes the order in which files are created
/// (file-system discovery order)
pub fn write_project(p: &GenProject, dir: &Path, order: Option<&[usize]>) {
    let _ = std::fs::remove_dir_all(dir);
    std::fs::create_dir_all(dir).unwrap();
    let idx: Vec<usize> = match order {
        Some(o) => o.to_vec(),
        None => (0..p.files.len()).collect(),
    };
    for i in idx {
        let (rel, src) = &p.files[i];
        let path = dir.join(rel);
        std::fs::create_dir_all(path.parent().unwrap()).unwrap();
        std::fs::write(path, src).unwrap();
    }
}

/// dependency-free example projects of the repository (copied: a build writes into the project directory)
pub fn example_projects(max: usize) -> Vec<GenProject> {
    let root = std::env::var("VERIF_ROOT").unwrap_or_else(|_| "/verif".into());
    let base = PathBuf::from(root).join("repo/examples/acceptance_tests");
    let mut dirs: Vec<PathBuf> = match std::fs::read_dir(&base) {
        Ok(rd) => rd.filter_map(|e| e.ok()).map(|e| e.path()).filter(|p| p.join("aiken.toml").exists()).collect(),
        Err(_) => vec![],
    };
    dirs.sort();
    let mut out = vec![];
    for d in dirs {
        let toml = std::fs::read_to_string(d.join("aiken.toml")).unwrap_or_default();
        if toml.contains("dependencies") || toml.contains("[config") {
            continue;
        }
        let mut files = vec![("aiken.toml".to_string(), toml)];
        for sub in ["lib", "validators", "env"] {
            collect_ak(&d, &d.join(sub), &mut files);
        }
        if files.len() > 1 {
            files[1..].sort();
            out.push(GenProject { name: format!("example-{}", d.file_name().unwrap().to_string_lossy()), files });
        }
        if out.len() >= max {
            break;
        }
    }
    out
}

fn collect_ak(root: &Path, dir: &Path, out: &mut Vec<(String, String)>) {
    if let Ok(rd) = std::fs::read_dir(dir) {
        for e in rd.filter_map(|e| e.ok()) {
            let p = e.path();
            if p.is_dir() {
                collect_ak(root, &p, out);
            } else if p.extension().is_some_and(|x| x == "ak") {
                if let Ok(src) = std::fs::read_to_string(&p) {
                    out.push((p.strip_prefix(root).unwrap().to_string_lossy().to_string(), src));
                }
            }
        }
    }
}

// ------------------------------------------------------------------ driving the real Project

#[derive(Default)]
pub struct Capture {
    pub results: RefCell<Vec<String>>,
}

#[derive(Clone, Default)]
pub struct Listener(pub Rc<Capture>);

/// canonical line for one test result (everything a user sees of it, but no paths)
pub fn canon_result(t: &TestResult<aiken_lang::expr::UntypedExpr, aiken_lang::expr::UntypedExpr>) -> String {
    match t {
        TestResult::UnitTestResult(u) => format!(
            "unit {}.{} success={} mem={} cpu={} logs={:?} assertion={}",
            u.test.module,
            u.test.name,
            u.success,
            u.spent_budget.mem,
            u.spent_budget.cpu,
            u.logs,
            u.assertion.as_ref().map(|a| format!("{:?}", a)).unwrap_or_else(|| "-".into())
        ),
        TestResult::PropertyTestResult(p) => format!(
            "prop {}.{} success={} iterations={} labels={:?} logs={:?} counterexample={}",
            p.test.module,
            p.test.name,
            t.is_success(),
            p.iterations,
            p.labels,
            p.logs,
            match &p.counterexample {
                Ok(None) => "none".to_string(),
                Ok(Some(e)) => format!("{:?}", e),
                Err(e) => format!("error {}", e),
            }
        ),
        TestResult::BenchmarkResult(b) => format!("bench {}.{} ok={}", b.bench.module, b.bench.name, b.error.is_none()),
    }
}

impl EventListener for Listener {
    fn handle_event(&self, event: Event) {
        if let Event::FinishedTests { tests, .. } = event {
            let mut out = self.0.results.borrow_mut();
            for t in tests.iter() {
                out.push(canon_result(t));
            }
        }
    }
}

pub fn tracing_of(level: u8) -> Tracing {
    match level {
        0 => Tracing::All(TraceLevel::Silent),
        1 => Tracing::All(TraceLevel::Compact),
        _ => Tracing::All(TraceLevel::Verbose),
    }
}

/// `aiken build`: returns the bytes of plutus.json
pub fn build(dir: &Path, tracing: Tracing) -> Result<Vec<u8>, String> {
    let mut project = Project::new(dir.to_path_buf(), Listener::default()).map_err(|e| format!("config: {e:?}"))?;
    let bp = dir.join("plutus.json");
    let _ = std::fs::remove_file(&bp);
    project
        .build(false, tracing, bp.clone(), BlueprintExport::OnlyBinaryInterface, None)
        .map_err(|es| format!("build: {}", es.iter().map(|e| format!("{e:?}")).collect::<Vec<_>>().join(" | ")))?;
    std::fs::read(&bp).map_err(|e| format!("no blueprint: {e}"))
}

/// `aiken check`: returns the canonical result lines, in the order of the `FinishedTests` event.
/// `Err` only if the project does not compile (failing tests are results, not errors)
pub fn check(dir: &Path, tracing: Tracing, seed: u32, max_success: usize) -> Result<Vec<String>, String> {
    let listener = Listener::default();
    let mut project = Project::new(dir.to_path_buf(), listener.clone()).map_err(|e| format!("config: {e:?}"))?;
    let r = project.check(false, None, false, false, seed, max_success, CoverageMode::default(), tracing, true, None);
    let results = listener.0.results.borrow().clone();
    match r {
        Ok(()) => Ok(results),
        Err(es) => {
            let only_tests = es.iter().all(|e| matches!(e, aiken_project::error::Error::TestFailure { .. }));
            if only_tests {
                Ok(results)
            } else {
                Err(format!("check: {}", es.iter().map(|e| format!("{e:?}")).collect::<Vec<_>>().join(" | ").chars().take(1500).collect::<String>()))
            }
        }
    }
}

pub fn program_hex(p: &Program<Name>) -> String {
    match Program::<DeBruijn>::try_from(p.clone()) {
        Ok(d) => match d.to_hex() {
            Ok(h) => h,
            Err(e) => format!("flat-error:{e:?}"),
        },
        Err(e) => format!("debruijn-error:{e:?}"),
    }
}

/// hex of every program of a test, keyed `module.name[#fuzzer]`
pub fn test_programs(tests: &[Test], out: &mut BTreeMap<String, String>) {
    for t in tests {
        match t {
            Test::UnitTest(u) => {
                out.insert(format!("{}.{}", u.module, u.name), program_hex(&u.program));
            }
            Test::PropertyTest(p) => {
                out.insert(format!("{}.{}", p.module, p.name), program_hex(&p.program));
                out.insert(format!("{}.{}#fuzzer", p.module, p.name), program_hex(&p.fuzzer.program));
            }
            Test::Benchmark(b) => {
                out.insert(format!("{}.{}", b.module, b.name), program_hex(&b.program));
                out.insert(format!("{}.{}#sampler", b.module, b.name), program_hex(&b.sampler.program));
            }
        }
    }
}
