//! C17 — parallel test runs are isolated and schedule-independent.
//!
//! 1. **Audited premise** (tie of `Props/C17.lean` to the real heap).  The
//!    `verif-hooks` callback of `Project::run_runnables` receives the `&[Test]`
//!    about to be handed to rayon.  For every test we walk everything `Test::run`
//!    reads, clones or drops — `program`, `fuzzer.program` / `sampler.program`:
//!    every `Rc<Term>`, `Rc<Name>`, `Rc<Constant>`, and the `Rc`s nested in
//!    constants and constant types — and record per allocation its address
//!    (`Rc::as_ptr`), its strong count and the number of references found inside
//!    the same test.  The sets go to `driver iso` (`Iso.isoCheck`, whose `true`
//!    answer is the hypothesis of `audited_tests_schedule_independent`) and are
//!    judged natively as well; the two verdicts must agree.  A shared address, or
//!    a strong count larger than the references found in the test (another holder
//!    exists: another test, the constant cache, a module AST), is a property
//!    failure naming the tests and the allocation.
//! 2. **Dynamic**: the same projects are checked on rayon pools of 1/2/8/16
//!    threads (and in child processes under `RAYON_NUM_THREADS`); result lines
//!    and their order relative to the collected tests must not depend on it.
use crate::driver;
use crate::prng::Prng;
use crate::projgen::{self, GenProject};
use crate::report::{guarded, Report};
use crate::Ctx;
use aiken_lang::test_framework::Test;
use serde_json::json;
use std::collections::{BTreeMap, HashMap};
use std::panic::AssertUnwindSafe;
use std::path::Path;
use std::rc::Rc;
use std::sync::Mutex;
use uplc::ast::{Constant, Name, Term, Type};

// ------------------------------------------------------------------ the walk

#[derive(Clone, Debug)]
pub struct AllocRec {
    pub strong: usize,
    pub weak: usize,
    pub refs: usize,
    pub kind: &'static str,
    pub what: String,
}

#[derive(Clone, Debug, Default)]
pub struct TestHeap {
    pub name: String,
    pub kind: &'static str,
    pub allocs: BTreeMap<usize, AllocRec>,
    /// `UnitTest.assertion` still present (it shares `Rc`s with the module AST and must have been taken)
    pub assertion_present: bool,
    /// strong counts of fuzzer.type_info / stripped_type_info (shared with the AST by design; not touched by `run`)
    pub type_info_strong: Vec<usize>,
}

enum Item<'a> {
    Term(&'a Term<Name>),
    Const(&'a Constant),
    Ty(&'a Type),
}

struct Walker {
    allocs: BTreeMap<usize, AllocRec>,
}

fn short(s: String) -> String {
    s.chars().take(80).collect()
}

impl Walker {
    /// record one reference; true if the allocation is seen for the first time
    fn edge<T>(&mut self, rc: &Rc<T>, kind: &'static str, what: impl FnOnce() -> String) -> bool {
        let addr = Rc::as_ptr(rc) as *const u8 as usize;
        let e = self.allocs.entry(addr).or_insert_with(|| AllocRec {
            strong: Rc::strong_count(rc),
            weak: Rc::weak_count(rc),
            refs: 0,
            kind,
            what: short(what()),
        });
        e.refs += 1;
        e.refs == 1
    }

    fn walk<'a>(&mut self, root: &'a Term<Name>) {
        let mut stack: Vec<Item<'a>> = vec![Item::Term(root)];
        while let Some(item) = stack.pop() {
            match item {
                Item::Term(t) => match t {
                    Term::Var(n) => {
                        self.edge(n, "Rc<Name>", || format!("var {}", n.text));
                    }
                    Term::Delay(b) | Term::Force(b) => {
                        if self.edge(b, "Rc<Term>", || "term".into()) {
                            stack.push(Item::Term(b));
                        }
                    }
                    Term::Lambda { parameter_name, body } => {
                        self.edge(parameter_name, "Rc<Name>", || format!("lam {}", parameter_name.text));
                        if self.edge(body, "Rc<Term>", || "term".into()) {
                            stack.push(Item::Term(body));
                        }
                    }
                    Term::Apply { function, argument } => {
                        if self.edge(function, "Rc<Term>", || "term".into()) {
                            stack.push(Item::Term(function));
                        }
                        if self.edge(argument, "Rc<Term>", || "term".into()) {
                            stack.push(Item::Term(argument));
                        }
                    }
                    Term::Constant(c) => {
                        if self.edge(c, "Rc<Constant>", || format!("{:?}", c)) {
                            stack.push(Item::Const(c));
                        }
                    }
                    Term::Error | Term::Builtin(_) => {}
                    Term::Constr { fields, .. } => {
                        for f in fields {
                            stack.push(Item::Term(f));
                        }
                    }
                    Term::Case { constr, branches } => {
                        if self.edge(constr, "Rc<Term>", || "term".into()) {
                            stack.push(Item::Term(constr));
                        }
                        for b in branches {
                            stack.push(Item::Term(b));
                        }
                    }
                },
                Item::Const(c) => match c {
                    Constant::ProtoList(t, items) => {
                        stack.push(Item::Ty(t));
                        for i in items {
                            stack.push(Item::Const(i));
                        }
                    }
                    Constant::ProtoPair(t1, t2, a, b) => {
                        stack.push(Item::Ty(t1));
                        stack.push(Item::Ty(t2));
                        if self.edge(a, "Rc<Constant>", || format!("{:?}", a)) {
                            stack.push(Item::Const(a));
                        }
                        if self.edge(b, "Rc<Constant>", || format!("{:?}", b)) {
                            stack.push(Item::Const(b));
                        }
                    }
                    _ => {}
                },
                Item::Ty(t) => match t {
                    Type::List(inner) => {
                        if self.edge(inner, "Rc<Type>", || format!("{:?}", inner)) {
                            stack.push(Item::Ty(inner));
                        }
                    }
                    Type::Pair(a, b) => {
                        if self.edge(a, "Rc<Type>", || format!("{:?}", a)) {
                            stack.push(Item::Ty(a));
                        }
                        if self.edge(b, "Rc<Type>", || format!("{:?}", b)) {
                            stack.push(Item::Ty(b));
                        }
                    }
                    _ => {}
                },
            }
        }
    }
}

/// everything `Test::run` reads, clones or drops
pub fn heap_of(t: &Test) -> TestHeap {
    let mut w = Walker { allocs: BTreeMap::new() };
    let mut h = TestHeap::default();
    match t {
        Test::UnitTest(u) => {
            h.name = format!("{}.{}", u.module, u.name);
            h.kind = "unit";
            h.assertion_present = u.assertion.is_some();
            w.walk(&u.program.term);
        }
        Test::PropertyTest(p) => {
            h.name = format!("{}.{}", p.module, p.name);
            h.kind = "property";
            w.walk(&p.program.term);
            w.walk(&p.fuzzer.program.term);
            h.type_info_strong = vec![Rc::strong_count(&p.fuzzer.type_info), Rc::strong_count(&p.fuzzer.stripped_type_info)];
        }
        Test::Benchmark(b) => {
            h.name = format!("{}.{}", b.module, b.name);
            h.kind = "benchmark";
            w.walk(&b.program.term);
            w.walk(&b.sampler.program.term);
            h.type_info_strong = vec![Rc::strong_count(&b.sampler.type_info), Rc::strong_count(&b.sampler.stripped_type_info)];
        }
    }
    h.allocs = w.allocs;
    h
}

// ------------------------------------------------------------------ verdicts

/// the request line for `driver iso`
pub fn iso_request(heaps: &[TestHeap]) -> String {
    let mut s = String::from("iso");
    for h in heaps {
        s.push(' ');
        if h.allocs.is_empty() {
            s.push('-');
        } else {
            let mut first = true;
            for (a, r) in &h.allocs {
                if !first {
                    s.push(',');
                }
                first = false;
                s.push_str(&format!("{}:{}:{}", a, r.strong, r.refs));
            }
        }
    }
    s
}

/// same answer format as `Drivers/Iso.lean`, computed independently
pub fn native_verdict(heaps: &[TestHeap]) -> String {
    let mut owner: HashMap<usize, usize> = HashMap::new();
    let mut dup: Option<usize> = None;
    for (i, h) in heaps.iter().enumerate() {
        for a in h.allocs.keys() {
            if owner.insert(*a, i).is_some() {
                dup = Some(dup.map_or(*a, |d| d.min(*a)));
            }
        }
    }
    if let Some(a) = dup {
        return format!("shared {a}");
    }
    for (i, h) in heaps.iter().enumerate() {
        for (a, r) in &h.allocs {
            if r.strong != r.refs {
                return format!("external {} {} {} {}", i, a, r.strong, r.refs);
            }
        }
    }
    format!("ok {} {}", heaps.len(), heaps.iter().map(|h| h.allocs.len()).sum::<usize>())
}

#[derive(Debug)]
pub struct Finding {
    pub key: String,
    pub what: String,
    pub detail: serde_json::Value,
}

/// every violation of the premise (not just the first), naming tests and allocation
pub fn findings(project: &str, heaps: &[TestHeap]) -> Vec<Finding> {
    let mut out = vec![];
    let mut holders: BTreeMap<usize, Vec<usize>> = BTreeMap::new();
    for (i, h) in heaps.iter().enumerate() {
        for a in h.allocs.keys() {
            holders.entry(*a).or_default().push(i);
        }
        if h.assertion_present {
            out.push(Finding {
                key: format!("c17:assertion-not-taken:{project}:{}", h.name),
                what: "UnitTest.assertion (typed expressions sharing Rc nodes with the module AST) is still attached when the tests are handed to the thread pool".into(),
                detail: json!({"test": h.name}),
            });
        }
    }
    let mut seen_pairs = std::collections::BTreeSet::new();
    for (a, hs) in &holders {
        if hs.len() > 1 {
            let (t1, t2) = (&heaps[hs[0]], &heaps[hs[1]]);
            let rec = &t1.allocs[a];
            // one finding per pair of tests and kind of allocation
            if seen_pairs.insert((hs[0], hs[1], rec.kind)) {
                out.push(Finding {
                    key: format!("c17:shared:{project}:{}:{}:{}", t1.name, t2.name, rec.kind),
                    what: format!(
                        "tests {} and {} may run on different threads but both reach the same non-atomic {} allocation",
                        t1.name, t2.name, rec.kind
                    ),
                    detail: json!({"tests": hs.iter().map(|i| heaps[*i].name.clone()).collect::<Vec<_>>(),
                                   "allocation": {"kind": rec.kind, "what": rec.what, "strong_count": rec.strong, "address": format!("{:#x}", a)}}),
                });
            }
        }
    }
    let mut seen_ext = std::collections::BTreeSet::new();
    for h in heaps {
        for (a, r) in &h.allocs {
            if holders[a].len() == 1 && r.strong != r.refs && seen_ext.insert((h.name.clone(), r.kind)) {
                out.push(Finding {
                    key: format!("c17:external-holder:{project}:{}:{}", h.name, r.kind),
                    what: format!(
                        "a {} reachable from test {} has strong count {} but only {} reference(s) inside the test: something outside the test (constant cache, module AST, generator) holds it",
                        r.kind, h.name, r.strong, r.refs
                    ),
                    detail: json!({"test": h.name, "allocation": {"kind": r.kind, "what": r.what, "strong_count": r.strong, "refs_in_test": r.refs, "weak": r.weak, "address": format!("{:#x}", a)}}),
                });
            }
        }
    }
    out
}

// ------------------------------------------------------------------ hook plumbing

/// one record per call of `run_runnables`
pub struct AuditRecord {
    pub heaps: Vec<TestHeap>,
    pub programs: BTreeMap<String, String>,
    pub order: Vec<String>,
}

static AUDITS: Mutex<Vec<AuditRecord>> = Mutex::new(Vec::new());

pub fn install_hook() {
    aiken_project::verif_hooks::set_audit(Some(Box::new(|tests: &[Test]| {
        // the *other* verification hook (aiken-lang, same cargo feature) keeps a clone of every
        // pre-optimisation program in a thread-local sink of this very thread; those clones share
        // `Rc<Constant>`s with the tests.  They exist only in the harness build: drop them first so
        // that the strong counts are those of the product.
        drop(aiken_lang::gen_uplc::verif_hooks::drain_pre_optimisation());
        let heaps: Vec<TestHeap> = tests.iter().map(heap_of).collect();
        let mut programs = BTreeMap::new();
        projgen::test_programs(tests, &mut programs);
        let order = heaps.iter().map(|h| h.name.clone()).collect();
        AUDITS.lock().unwrap().push(AuditRecord { heaps, programs, order });
    })));
}

pub fn take_audits() -> Vec<AuditRecord> {
    std::mem::take(&mut *AUDITS.lock().unwrap())
}

pub fn remove_hook() {
    aiken_project::verif_hooks::set_audit(None);
}

fn arg_usize(name: &str, default: usize) -> usize {
    let args: Vec<String> = std::env::args().collect();
    args.iter().position(|a| a == name).and_then(|i| args.get(i + 1)).and_then(|v| v.parse().ok()).unwrap_or(default)
}

/// run `check` on a pool of `n` threads (0 = the global pool)
pub fn check_on(dir: &Path, threads: usize, tracing_level: u8, seed: u32, max_success: usize) -> Result<Result<Vec<String>, String>, String> {
    let dir = dir.to_path_buf();
    let job = move || projgen::check(&dir, projgen::tracing_of(tracing_level), seed, max_success);
    if threads == 0 {
        guarded(AssertUnwindSafe(job))
    } else {
        let pool = rayon::ThreadPoolBuilder::new().num_threads(threads).build().map_err(|e| e.to_string())?;
        guarded(AssertUnwindSafe(move || pool.install(job)))
    }
}

/// strip the "kind module.name" prefix → name used by the audit
fn result_name(line: &str) -> String {
    line.split(' ').nth(1).unwrap_or("").to_string()
}

/// child entry: `verif-harness c17-child <dir> <tracing> <seed> <max_success>` prints one JSON document
pub fn child(args: &[String]) -> ! {
    std::panic::set_hook(Box::new(|_| {}));
    projgen::silence_stderr();
    install_hook();
    let dir = std::path::PathBuf::from(&args[2]);
    let tl: u8 = args[3].parse().unwrap();
    let seed: u32 = args[4].parse().unwrap();
    let max: usize = args[5].parse().unwrap();
    let r = check_on(&dir, 0, tl, seed, max);
    let audits = take_audits();
    let doc = match r {
        Ok(Ok(lines)) => json!({"ok": true, "results": lines,
            "order": audits.first().map(|a| a.order.clone()).unwrap_or_default(),
            "programs": audits.first().map(|a| a.programs.clone()).unwrap_or_default(),
            "verdict": audits.first().map(|a| native_verdict(&a.heaps)).unwrap_or_default()}),
        Ok(Err(e)) => json!({"ok": false, "error": e}),
        Err(p) => json!({"ok": false, "panic": p}),
    };
    println!("{}", doc);
    std::process::exit(0)
}

pub fn run_child(sub: &str, dir: &Path, threads: usize, extra: &[String]) -> Result<serde_json::Value, String> {
    let exe = std::env::current_exe().map_err(|e| e.to_string())?;
    let out = std::process::Command::new(exe)
        .arg(sub)
        .arg(dir)
        .args(extra)
        .env("RAYON_NUM_THREADS", threads.to_string())
        .output()
        .map_err(|e| e.to_string())?;
    let text = String::from_utf8_lossy(&out.stdout);
    let line = text.lines().last().unwrap_or("");
    serde_json::from_str(line).map_err(|e| format!("child output: {e}: {}", text.chars().take(300).collect::<String>()))
}

// ------------------------------------------------------------------ controls (the audit can see sharing)

fn controls(rep: &mut Report, reqs: &mut Vec<String>, expect: &mut Vec<(String, String, String)>, sample: &[Test]) {
    // 1. a cloned test shares every child allocation with the original
    if let Some(t) = sample.first() {
        let pair = vec![t.clone(), t.clone()];
        let heaps: Vec<TestHeap> = pair.iter().map(heap_of).collect();
        let v = native_verdict(&heaps);
        rep.count("control:cloned-test");
        if !v.starts_with("shared") && !heaps[0].allocs.is_empty() {
            rep.fail("c17:control:cloned-test", "the audit does not flag two tests that share all their allocations", json!({}), json!({"verdict": v}));
        }
        reqs.push(iso_request(&heaps));
        expect.push(("control:cloned-test".into(), v, String::new()));
        drop(pair);
    }
    // 2. an outside holder: the heap of a clone alone, while the original (which shares every child) is alive
    if let Some(t) = sample.iter().find(|t| heap_of(t).allocs.len() > 1) {
        let copy = t.clone();
        let heaps = vec![heap_of(&copy)];
        let v = native_verdict(&heaps);
        rep.count("control:outside-holder");
        if !v.starts_with("external") {
            rep.fail("c17:control:outside-holder", "the audit does not flag an allocation that is also held outside the test", json!({}), json!({"verdict": v}));
        }
        reqs.push(iso_request(&heaps));
        expect.push(("control:outside-holder".into(), v, String::new()));
    }
    // 3. what a constant cache handing out `Rc` clones would produce: two programs embedding the same Rc<Constant>
    {
        let shared = Rc::new(Constant::ProtoList(Type::List(Rc::new(Type::Integer)), vec![]));
        let mk = |name: &str| {
            let mut h = TestHeap { name: name.into(), kind: "unit", ..Default::default() };
            let mut w = Walker { allocs: BTreeMap::new() };
            let term: Term<Name> = Term::Constant(shared.clone()).delay();
            w.walk(&term);
            h.allocs = w.allocs;
            (h, term)
        };
        let (h1, _t1) = mk("a.x");
        let (h2, _t2) = mk("a.y");
        let heaps = vec![h1, h2];
        let v = native_verdict(&heaps);
        rep.count("control:cache-handing-out-rc-clones");
        if !v.starts_with("shared") {
            rep.fail("c17:control:shared-constant", "the audit does not flag a constant shared by two programs", json!({}), json!({"verdict": v}));
        }
        let f = findings("control", &heaps);
        if !f.iter().any(|f| f.key.starts_with("c17:shared:control:a.x:a.y")) {
            rep.fail("c17:control:shared-constant-finding", "no finding names the two tests sharing a constant", json!({}), json!({"n": f.len()}));
        }
        reqs.push(iso_request(&heaps));
        expect.push(("control:shared-constant".into(), v, String::new()));
    }
}

// ------------------------------------------------------------------ main entry

pub fn projects_for(ctx: &Ctx, r: &mut Prng, n_gen: usize, n_examples: usize) -> Vec<GenProject> {
    let mut out = vec![];
    // corpus first
    let root = std::env::var("VERIF_ROOT").unwrap_or_else(|_| "/verif".into());
    for id in ["C17", "C09"] {
        if let Ok(rd) = std::fs::read_dir(format!("{root}/corpus/{id}")) {
            let mut ps: Vec<_> = rd.filter_map(|e| e.ok()).map(|e| e.path()).filter(|p| p.extension().is_some_and(|x| x == "json")).collect();
            ps.sort();
            for p in ps {
                if let Some(g) = std::fs::read_to_string(&p).ok().and_then(|s| serde_json::from_str::<serde_json::Value>(&s).ok()).and_then(|v| GenProject::from_json(&v)) {
                    out.push(g);
                }
            }
        }
    }
    for i in 0..n_gen {
        out.push(projgen::gen_project(r, &format!("g{}_{}", ctx.seed, i)));
    }
    let ex = projgen::example_projects(usize::MAX);
    // deterministic spread over the examples
    if !ex.is_empty() {
        let step = (ex.len() / n_examples.max(1)).max(1);
        let off = r.below(step);
        out.extend(ex.into_iter().skip(off).step_by(step).take(n_examples));
    }
    out
}

pub fn run(ctx: &Ctx) -> Report {
    let mut rep = Report::new(
        "c17-iso",
        "one case = one (project, thread count) run of the real `Project::check` whose tests were audited by the run_runnables hook; \
         distinct non-trivial = distinct (project, test) heaps with at least one Rc allocation",
    );
    let n_gen = arg_usize("--projects", if ctx.thorough { 24 } else { 5 });
    let n_ex = arg_usize("--examples", if ctx.thorough { 60 } else { 10 });
    let n_child = arg_usize("--children", if ctx.thorough { 6 } else { 2 });
    let max_success = arg_usize("--max-success", if ctx.thorough { 60 } else { 25 });
    let driver_limit = arg_usize("--driver-allocs", 400_000);
    let thread_counts: &[usize] = &[1, 2, 8, 16];
    let mut r = Prng::new(ctx.seed);
    let projects = projects_for(ctx, &mut r, n_gen, n_ex);
    let scratch = projgen::scratch_root();
    projgen::silence_stderr();
    install_hook();

    let mut reqs: Vec<String> = vec![];
    let mut expect: Vec<(String, String, String)> = vec![]; // (key, native verdict, request kept for the report)

    for (pi, p) in projects.iter().enumerate() {
        let dir = scratch.join(format!("c17-{pi}"));
        projgen::write_project(p, &dir, None);
        let tl = (r.below(3)) as u8;
        let seed = r.next() as u32;
        let mut baseline: Option<BTreeMap<String, String>> = None;
        let mut baseline_programs: Option<BTreeMap<String, String>> = None;
        for &n in thread_counts {
            let res = check_on(&dir, n, tl, seed, max_success);
            let audits = take_audits();
            rep.evaluations += 1;
            let lines = match res {
                Ok(Ok(lines)) => lines,
                Ok(Err(e)) => {
                    rep.count("project-does-not-compile");
                    if p.name.starts_with('g') {
                        rep.notes.push(format!("generated project {} rejected: {}", p.name, e.chars().take(400).collect::<String>()));
                    }
                    break;
                }
                Err(panic) => {
                    rep.fail(&format!("c17:panic:{}:threads={n}", p.name), "Project::check panicked", p.to_json(), json!({"panic": panic, "threads": n}));
                    break;
                }
            };
            rep.count(&format!("threads={n}"));
            if n == 1 {
                for l in &lines {
                    let kind = l.split(' ').next().unwrap_or("");
                    let ok = l.contains(" success=true ");
                    let extra = if l.contains(" assertion=-") || kind != "unit" { "" } else { "+assertion-evaluated" };
                    let cex = if kind == "prop" && !l.ends_with("counterexample=none") { "+counterexample" } else { "" };
                    rep.count(&format!("result:{kind}:{}{extra}{cex}", if ok { "success" } else { "failure" }));
                }
            }
            if audits.len() != 1 {
                if !lines.is_empty() {
                    rep.fail(&format!("c17:hook:{}", p.name), "run_runnables did not call the audit hook exactly once", json!({"project": p.name}), json!({"calls": audits.len()}));
                }
                if audits.is_empty() {
                    rep.count("project-without-tests");
                    break;
                }
            }
            let audit = &audits[0];
            // (a) the premise, on the heap of this run
            let native = native_verdict(&audit.heaps);
            rep.count(&format!("verdict:{}", native.split(' ').next().unwrap_or("")));
            for f in findings(&p.name, &audit.heaps) {
                rep.fail(&f.key, &f.what, p.to_json(), f.detail);
            }
            for h in &audit.heaps {
                if !h.allocs.is_empty() {
                    rep.nontrivial.insert(format!("{}:{}", p.name, h.name));
                }
                rep.count(&format!("test-kind:{}", h.kind));
                if h.type_info_strong.iter().any(|s| *s > 1) {
                    rep.count("property-test-type_info-shared-with-ast(by design, not touched by run)");
                }
            }
            let total: usize = audit.heaps.iter().map(|h| h.allocs.len()).sum();
            rep.count(&format!("allocs-per-run:10^{}", (total.max(1) as f64).log10().floor()));
            if n == 1 || n == 16 {
                if total <= driver_limit {
                    reqs.push(iso_request(&audit.heaps));
                    expect.push((format!("c17:iso:{}:threads={n}", p.name), native.clone(), String::new()));
                } else {
                    rep.count("driver-skipped:too-many-allocations");
                }
            }
            // (b) results line up with the collected tests (indexed collect)
            let names: Vec<String> = lines.iter().map(|l| result_name(l)).collect();
            if names != audit.order {
                rep.fail(
                    &format!("c17:order:{}:threads={n}", p.name),
                    "results are not in the order of the tests handed to the thread pool",
                    p.to_json(),
                    json!({"threads": n, "tests": audit.order, "results": names}),
                );
            }
            // (c) same results whatever the number of threads
            let by_name: BTreeMap<String, String> = lines.iter().map(|l| (result_name(l), l.clone())).collect();
            match &baseline {
                None => {
                    baseline = Some(by_name);
                    baseline_programs = Some(audit.programs.clone());
                    if rep.samples.len() < 3 {
                        rep.sample(json!({"project": p.name, "tests": audit.order.len(), "allocations": total, "verdict": native, "first_results": lines.iter().take(3).collect::<Vec<_>>()}));
                    }
                }
                Some(b) => {
                    if *b != by_name {
                        let diff: Vec<_> = b.iter().filter(|(k, v)| by_name.get(*k) != Some(v)).map(|(k, v)| json!({"test": k, "sequential": v, "parallel": by_name.get(k)})).take(5).collect();
                        rep.fail(
                            &format!("c17:results:{}:threads={n}", p.name),
                            "test results differ between a 1-thread and an n-thread run",
                            p.to_json(),
                            json!({"threads": n, "seed": seed, "tracing": tl, "differences": diff}),
                        );
                    }
                    if baseline_programs.as_ref() != Some(&audit.programs) {
                        rep.count("test-programs-differ-between-runs(see C09)");
                    }
                }
            }
        }
        // child processes under RAYON_NUM_THREADS
        if pi < n_child {
            if let Some(b) = &baseline {
                for &n in &[1usize, 16] {
                    match run_child("c17-child", &dir, n, &[tl.to_string(), seed.to_string(), max_success.to_string()]) {
                        Ok(doc) => {
                            rep.evaluations += 1;
                            rep.count(&format!("child:RAYON_NUM_THREADS={n}"));
                            let lines: Vec<String> = doc.get("results").and_then(|v| v.as_array()).map(|a| a.iter().filter_map(|x| x.as_str().map(String::from)).collect()).unwrap_or_default();
                            let by_name: BTreeMap<String, String> = lines.iter().map(|l| (result_name(l), l.clone())).collect();
                            if &by_name != b {
                                rep.fail(&format!("c17:child-results:{}:threads={n}", p.name), "test results differ between the in-process 1-thread run and a child process", p.to_json(), json!({"threads": n, "child": doc}));
                            }
                            let order: Vec<String> = doc.get("order").and_then(|v| v.as_array()).map(|a| a.iter().filter_map(|x| x.as_str().map(String::from)).collect()).unwrap_or_default();
                            if order != lines.iter().map(|l| result_name(l)).collect::<Vec<_>>() {
                                rep.fail(&format!("c17:child-order:{}:threads={n}", p.name), "results are not in the order of the collected tests (child process)", p.to_json(), json!({"threads": n}));
                            }
                            if !doc.get("verdict").and_then(|v| v.as_str()).unwrap_or("").starts_with("ok") {
                                rep.fail(&format!("c17:child-verdict:{}:threads={n}", p.name), "audit in the child process found sharing", p.to_json(), json!({"child": doc.get("verdict")}));
                            }
                        }
                        Err(e) => rep.notes.push(format!("child run failed: {e}")),
                    }
                }
            }
        }
        let _ = std::fs::remove_dir_all(&dir);
    }

    // controls on real tests: collect the tests of the first generated project directly
    {
        let p = projgen::gen_project(&mut Prng::new(ctx.seed ^ 0xC17), "ctl");
        let dir = scratch.join("c17-ctl");
        projgen::write_project(&p, &dir, None);
        static CONTROL_TESTS: Mutex<Vec<Test>> = Mutex::new(Vec::new());
        aiken_project::verif_hooks::set_audit(Some(Box::new(|tests: &[Test]| {
            drop(aiken_lang::gen_uplc::verif_hooks::drain_pre_optimisation());
            // deep copies via the printer/parser would lose the sharing structure; keep clones (they share with the originals, which are dropped after the run)
            *CONTROL_TESTS.lock().unwrap() = tests.to_vec();
        })));
        let _ = check_on(&dir, 1, 0, 1, 3);
        remove_hook();
        let tests = std::mem::take(&mut *CONTROL_TESTS.lock().unwrap());
        if tests.is_empty() {
            rep.notes.push("controls: no tests collected".into());
        }
        // after the run the originals are gone: the clones are the only holders now
        let heaps: Vec<TestHeap> = tests.iter().map(heap_of).collect();
        let v = native_verdict(&heaps);
        if !v.starts_with("ok") {
            rep.notes.push(format!("controls: retained clones are not self-contained ({v}); results keep the originals alive"));
        }
        controls(&mut rep, &mut reqs, &mut expect, &tests);
        drop(tests);
        let _ = std::fs::remove_dir_all(&dir);
    }

    // the Lean audit on the same measurements
    let replies = driver::run(&reqs);
    for ((key, native, _), reply) in expect.iter().zip(replies.iter()) {
        rep.evaluations += 1;
        if native != reply {
            rep.disagree(key, "iso <heaps>", native, reply);
        }
    }
    rep.count(&format!("driver-requests:{}", reqs.len()));
    remove_hook();
    projgen::cleanup();
    rep
}
