//! Seeded generator of serialisable Aiken types (declarations + closed type expressions),
//! their rendering as Aiken source and as the driver's wire form, and of Plutus data that
//! conforms to a type or misses it narrowly (C12, C18).
use crate::prng::Prng;
use crate::sx;
use num_bigint::BigInt;
use pallas_primitives::alonzo::PlutusData;
use uplc::ast::Data;

#[derive(Clone, Debug, PartialEq)]
pub enum Ty {
    Int,
    Bytes,
    Bool,
    Void,
    Data,
    Ordering,
    Never,
    List(Box<Ty>),
    Pair(Box<Ty>, Box<Ty>),
    Option(Box<Ty>),
    Tuple(Vec<Ty>),
    Adt(usize, Vec<Ty>),
    Var(usize),
}

#[derive(Clone, Debug)]
pub struct Ctor {
    pub tag: Option<u64>,
    pub fields: Vec<Ty>,
    pub labelled: bool,
}

#[derive(Clone, Debug)]
pub struct DataType {
    pub arity: usize,
    pub ctors: Vec<Ctor>,
    /// `pub type T { f0: .. }` (single constructor named like the type)
    pub record: bool,
    /// `@list` on the record
    pub as_list: bool,
}

pub type Decls = Vec<DataType>;

const VARS: [&str; 3] = ["a", "b", "c"];

impl Ty {
    pub fn wire(&self) -> String {
        match self {
            Ty::Int => "i".into(),
            Ty::Bytes => "b".into(),
            Ty::Bool => "bo".into(),
            Ty::Void => "vo".into(),
            Ty::Data => "da".into(),
            Ty::Ordering => "or".into(),
            Ty::Never => "ne".into(),
            Ty::List(t) => format!("(li {})", t.wire()),
            Ty::Pair(a, b) => format!("(pa {} {})", a.wire(), b.wire()),
            Ty::Option(t) => format!("(op {})", t.wire()),
            Ty::Tuple(ts) => format!("(tu {})", ts.iter().map(|t| t.wire()).collect::<Vec<_>>().join(" ")),
            Ty::Adt(n, args) => {
                if args.is_empty() {
                    format!("(ad {})", n)
                } else {
                    format!("(ad {} {})", n, args.iter().map(|t| t.wire()).collect::<Vec<_>>().join(" "))
                }
            }
            Ty::Var(i) => format!("(va {})", i),
        }
    }
    pub fn aiken(&self) -> String {
        match self {
            Ty::Int => "Int".into(),
            Ty::Bytes => "ByteArray".into(),
            Ty::Bool => "Bool".into(),
            Ty::Void => "Void".into(),
            Ty::Data => "Data".into(),
            Ty::Ordering => "Ordering".into(),
            Ty::Never => "Never".into(),
            Ty::List(t) => format!("List<{}>", t.aiken()),
            Ty::Pair(a, b) => format!("Pair<{}, {}>", a.aiken(), b.aiken()),
            Ty::Option(t) => format!("Option<{}>", t.aiken()),
            Ty::Tuple(ts) => format!("({})", ts.iter().map(|t| t.aiken()).collect::<Vec<_>>().join(", ")),
            Ty::Adt(n, args) => {
                if args.is_empty() {
                    format!("T{}", n)
                } else {
                    format!("T{}<{}>", n, args.iter().map(|t| t.aiken()).collect::<Vec<_>>().join(", "))
                }
            }
            Ty::Var(i) => VARS[*i].into(),
        }
    }
    pub fn subst(&self, args: &[Ty]) -> Ty {
        match self {
            Ty::List(t) => Ty::List(Box::new(t.subst(args))),
            Ty::Pair(a, b) => Ty::Pair(Box::new(a.subst(args)), Box::new(b.subst(args))),
            Ty::Option(t) => Ty::Option(Box::new(t.subst(args))),
            Ty::Tuple(ts) => Ty::Tuple(ts.iter().map(|t| t.subst(args)).collect()),
            Ty::Adt(n, xs) => Ty::Adt(*n, xs.iter().map(|t| t.subst(args)).collect()),
            Ty::Var(i) => args.get(*i).cloned().unwrap_or(Ty::Data),
            t => t.clone(),
        }
    }
    fn mentions_var(&self, i: usize) -> bool {
        match self {
            Ty::Var(j) => *j == i,
            Ty::List(t) | Ty::Option(t) => t.mentions_var(i),
            Ty::Pair(a, b) => a.mentions_var(i) || b.mentions_var(i),
            Ty::Tuple(ts) | Ty::Adt(_, ts) => ts.iter().any(|t| t.mentions_var(i)),
            _ => false,
        }
    }
}

pub fn decls_wire(decls: &Decls) -> String {
    let mut s = String::from("(");
    for (i, dt) in decls.iter().enumerate() {
        if i > 0 {
            s.push(' ');
        }
        s.push_str(&format!("({} {}", dt.arity, if dt.as_list { 1 } else { 0 }));
        for c in &dt.ctors {
            s.push_str(" (");
            match c.tag {
                Some(t) => s.push_str(&t.to_string()),
                None => s.push('-'),
            }
            for f in &c.fields {
                s.push(' ');
                s.push_str(&f.wire());
            }
            s.push(')');
        }
        s.push(')');
    }
    s.push(')');
    s
}

pub fn decls_aiken(decls: &Decls) -> String {
    let mut s = String::new();
    for (n, dt) in decls.iter().enumerate() {
        let params = if dt.arity == 0 {
            String::new()
        } else {
            format!("<{}>", VARS[..dt.arity].join(", "))
        };
        if dt.record {
            let c = &dt.ctors[0];
            if dt.as_list {
                s.push_str("@list\n");
            }
            if let Some(t) = c.tag {
                s.push_str(&format!("@tag({})\n", t));
            }
            s.push_str(&format!("pub type T{}{} {{\n", n, params));
            for (i, f) in c.fields.iter().enumerate() {
                s.push_str(&format!("  f{}: {},\n", i, f.aiken()));
            }
            s.push_str("}\n\n");
        } else {
            s.push_str(&format!("pub type T{}{} {{\n", n, params));
            for (k, c) in dt.ctors.iter().enumerate() {
                if let Some(t) = c.tag {
                    s.push_str(&format!("  @tag({})\n", t));
                }
                if c.fields.is_empty() {
                    s.push_str(&format!("  T{}C{}\n", n, k));
                } else if c.labelled {
                    let fs: Vec<String> =
                        c.fields.iter().enumerate().map(|(i, f)| format!("f{}: {}", i, f.aiken())).collect();
                    s.push_str(&format!("  T{}C{} {{ {} }}\n", n, k, fs.join(", ")));
                } else {
                    let fs: Vec<String> = c.fields.iter().map(|f| f.aiken()).collect();
                    s.push_str(&format!("  T{}C{}({})\n", n, k, fs.join(", ")));
                }
            }
            s.push_str("}\n\n");
        }
    }
    s
}

/// a type expression over declarations `0..upto` (`self_ix` may be used for recursion),
/// with `nvars` type variables in scope
pub fn gen_ty(r: &mut Prng, decls: &Decls, upto: usize, self_ix: Option<(usize, usize)>, nvars: usize, depth: u32) -> Ty {
    let leaf = depth == 0 || r.chance(2, 5);
    if leaf {
        let k = r.below(if nvars > 0 { 12 } else { 9 });
        return match k {
            0 | 1 => Ty::Int,
            2 | 3 => Ty::Bytes,
            4 => Ty::Bool,
            5 => Ty::Data,
            6 => Ty::Void,
            7 => {
                if r.chance(1, 2) {
                    Ty::Ordering
                } else {
                    Ty::Never
                }
            }
            8 => {
                // nullary or self reference
                if let Some((ix, ar)) = self_ix {
                    if r.chance(1, 2) {
                        return Ty::Adt(ix, (0..ar).map(Ty::Var).collect());
                    }
                }
                Ty::Int
            }
            _ => Ty::Var(r.below(nvars)),
        };
    }
    match r.below(7) {
        0 => Ty::List(Box::new(gen_ty(r, decls, upto, self_ix, nvars, depth - 1))),
        1 => Ty::Option(Box::new(gen_ty(r, decls, upto, self_ix, nvars, depth - 1))),
        2 => Ty::Pair(
            Box::new(gen_ty(r, decls, upto, self_ix, nvars, depth - 1)),
            Box::new(gen_ty(r, decls, upto, self_ix, nvars, depth - 1)),
        ),
        3 => {
            let n = 2 + r.below(2);
            Ty::Tuple((0..n).map(|_| gen_ty(r, decls, upto, self_ix, nvars, depth - 1)).collect())
        }
        4 => Ty::List(Box::new(Ty::Pair(
            Box::new(gen_ty(r, decls, upto, self_ix, nvars, depth - 1)),
            Box::new(gen_ty(r, decls, upto, self_ix, nvars, depth - 1)),
        ))),
        _ => {
            if upto == 0 {
                return Ty::Int;
            }
            let n = r.below(upto);
            let ar = decls[n].arity;
            Ty::Adt(n, (0..ar).map(|_| gen_ty(r, decls, upto, self_ix, nvars, depth - 1)).collect())
        }
    }
}

pub fn gen_decls(r: &mut Prng, count: usize) -> Decls {
    let mut decls: Decls = vec![];
    for n in 0..count {
        let arity = *r.pick(&[0usize, 0, 0, 1, 1, 2]);
        let style = r.below(10);
        let mut dt = if style < 3 {
            // record
            let nf = 1 + r.below(3);
            let fields = (0..nf).map(|_| gen_ty(r, &decls, n, None, arity, 2)).collect();
            let deco = r.below(6);
            DataType {
                arity,
                ctors: vec![Ctor {
                    tag: if deco == 0 { Some(*r.pick(&[1u64, 5, 7, 127, 128, 300])) } else { None },
                    fields,
                    labelled: true,
                }],
                record: true,
                as_list: deco == 1,
            }
        } else {
            let nc = if style == 3 { 8 + r.below(3) } else { 1 + r.below(4) };
            let tagged = r.chance(1, 5);
            let mut ctors = vec![];
            let mut used: Vec<u64> = vec![];
            for k in 0..nc {
                let nf = if nc > 5 { r.below(2) } else { r.below(4) };
                let fields: Vec<Ty> = (0..nf)
                    .map(|_| gen_ty(r, &decls, n, if k > 0 { Some((n, arity)) } else { None }, arity, 2))
                    .collect();
                let tag = if tagged && r.chance(2, 3) {
                    let mut t = *r.pick(&[0u64, 1, 2, 6, 7, 8, 126, 127, 128, 129, 1000]);
                    while used.contains(&t) {
                        t += 1;
                    }
                    Some(t)
                } else {
                    None
                };
                used.push(tag.unwrap_or(k as u64));
                ctors.push(Ctor { tag, fields, labelled: r.chance(1, 3) });
            }
            // explicit tags must not collide with implicit positions either
            let mut seen = std::collections::BTreeSet::new();
            let mut clash = false;
            for (k, c) in ctors.iter().enumerate() {
                if !seen.insert(c.tag.unwrap_or(k as u64)) {
                    clash = true;
                }
            }
            if clash {
                for c in ctors.iter_mut() {
                    c.tag = None;
                }
            }
            DataType { arity, ctors, record: false, as_list: false }
        };
        // every type parameter must occur
        for v in 0..arity {
            if !dt.ctors.iter().any(|c| c.fields.iter().any(|f| f.mentions_var(v))) {
                let last = dt.ctors.len() - 1;
                dt.ctors[last].fields.push(Ty::Var(v));
            }
        }
        decls.push(dt);
    }
    decls
}

// ---------------------------------------------------------------------------- data
#[derive(Clone, Debug, PartialEq)]
pub enum D {
    C(u64, Vec<D>),
    L(Vec<D>),
    M(Vec<(D, D)>),
    I(BigInt),
    B(Vec<u8>),
}

impl D {
    pub fn wire(&self) -> String {
        match self {
            D::C(t, fs) => {
                let mut s = format!("(C {}", t);
                for f in fs {
                    s.push(' ');
                    s.push_str(&f.wire());
                }
                s.push(')');
                s
            }
            D::L(xs) => {
                let mut s = String::from("(L");
                for f in xs {
                    s.push(' ');
                    s.push_str(&f.wire());
                }
                s.push(')');
                s
            }
            D::M(es) => {
                let mut s = String::from("(M");
                for (k, v) in es {
                    s.push_str(&format!(" ({} {})", k.wire(), v.wire()));
                }
                s.push(')');
                s
            }
            D::I(i) => format!("(I {})", i),
            D::B(b) => format!("(B #{})", hex::encode(b)),
        }
    }
    /// concrete `PlutusData`; arrays definite or indefinite at random
    pub fn plutus(&self, r: &mut Prng) -> PlutusData {
        match self {
            D::C(t, fs) => {
                let fs = fs.iter().map(|f| f.plutus(r)).collect();
                sx::constr_raw(*t, fs, r.chance(1, 2))
            }
            D::L(xs) => {
                let xs = xs.iter().map(|f| f.plutus(r)).collect();
                sx::list_raw(xs, r.chance(1, 2))
            }
            D::M(es) => Data::map(es.iter().map(|(k, v)| (k.plutus(r), v.plutus(r))).collect()),
            D::I(i) => Data::integer(i.clone()),
            D::B(b) => Data::bytestring(b.clone()),
        }
    }
    pub fn nodes(&self) -> usize {
        match self {
            D::C(_, fs) | D::L(fs) => 1 + fs.iter().map(|f| f.nodes()).sum::<usize>(),
            D::M(es) => 1 + es.iter().map(|(k, v)| k.nodes() + v.nodes()).sum::<usize>(),
            _ => 1,
        }
    }
}

pub fn ctor_table(dt: &DataType) -> Vec<(u64, &Vec<Ty>)> {
    dt.ctors.iter().enumerate().map(|(k, c)| (c.tag.unwrap_or(k as u64), &c.fields)).collect()
}

fn gen_int(r: &mut Prng) -> BigInt {
    match r.below(8) {
        0 => BigInt::from(0),
        1 => BigInt::from(-1),
        2 => BigInt::from(u64::MAX) + BigInt::from(r.below(3)),
        3 => -(BigInt::from(u64::MAX)) - BigInt::from(r.below(3)),
        4 => BigInt::from(1u8) << 130,
        _ => BigInt::from(r.range(-1000, 1000)),
    }
}

fn gen_bytes(r: &mut Prng) -> Vec<u8> {
    let n = match r.below(6) {
        0 => 0,
        1 => 64,
        2 => 65,
        _ => r.below(6),
    };
    (0..n).map(|_| r.below(256) as u8).collect()
}

pub fn gen_any(r: &mut Prng, depth: u32) -> D {
    let k = if depth == 0 { 3 + r.below(2) } else { r.below(5) };
    match k {
        0 => D::C(*r.pick(&[0u64, 1, 2, 6, 7, 127, 128, 5]), (0..r.below(3)).map(|_| gen_any(r, depth - 1)).collect()),
        1 => D::L((0..r.below(3)).map(|_| gen_any(r, depth - 1)).collect()),
        2 => D::M((0..r.below(3)).map(|_| (gen_any(r, depth - 1), gen_any(r, depth - 1))).collect()),
        3 => D::I(gen_int(r)),
        _ => D::B(gen_bytes(r)),
    }
}

/// a value of the (closed) type, as data
pub fn gen_conforming(r: &mut Prng, decls: &Decls, t: &Ty, depth: u32) -> D {
    match t {
        Ty::Int => D::I(gen_int(r)),
        Ty::Bytes => D::B(gen_bytes(r)),
        Ty::Bool => D::C(r.below(2) as u64, vec![]),
        Ty::Void => D::C(0, vec![]),
        Ty::Data => gen_any(r, depth.min(2)),
        Ty::Ordering => D::C(r.below(3) as u64, vec![]),
        Ty::Never => D::C(1, vec![]),
        Ty::List(inner) => {
            let n = if depth == 0 { 0 } else { r.below(4) };
            if let Ty::Pair(a, b) = &**inner {
                D::M((0..n)
                    .map(|_| (gen_conforming(r, decls, a, depth - 1), gen_conforming(r, decls, b, depth - 1)))
                    .collect())
            } else {
                D::L((0..n).map(|_| gen_conforming(r, decls, inner, depth - 1)).collect())
            }
        }
        Ty::Pair(a, b) => {
            let d = depth.saturating_sub(1);
            D::L(vec![gen_conforming(r, decls, a, d), gen_conforming(r, decls, b, d)])
        }
        Ty::Option(inner) => {
            if depth == 0 || r.chance(1, 3) {
                D::C(1, vec![])
            } else {
                D::C(0, vec![gen_conforming(r, decls, inner, depth - 1)])
            }
        }
        Ty::Tuple(ts) => {
            let d = depth.saturating_sub(1);
            D::L(ts.iter().map(|t| gen_conforming(r, decls, t, d)).collect())
        }
        Ty::Adt(n, args) => {
            let dt = &decls[*n];
            let table = ctor_table(dt);
            let d = depth.saturating_sub(1);
            if dt.as_list {
                return D::L(table[0].1.iter().map(|f| gen_conforming(r, decls, &f.subst(args), d)).collect());
            }
            // at depth 0 prefer the constructor with the fewest fields
            let k = if depth == 0 {
                (0..table.len()).min_by_key(|k| table[*k].1.len()).unwrap()
            } else {
                r.below(table.len())
            };
            if depth == 0 && !table[k].1.is_empty() {
                // no way to finish a value of this type here: cut (will not conform)
                return D::C(table[k].0, vec![]);
            }
            D::C(table[k].0, table[k].1.iter().map(|f| gen_conforming(r, decls, &f.subst(args), d)).collect())
        }
        Ty::Var(_) => D::I(BigInt::from(0)),
    }
}

/// one structural near miss somewhere in `d`
pub fn mutate(r: &mut Prng, d: &D) -> D {
    let n = d.nodes();
    let mut target = r.below(n);
    mutate_at(r, d, &mut target)
}

fn mutate_here(r: &mut Prng, d: &D) -> D {
    match d {
        D::C(t, fs) => match r.below(7) {
            0 => D::C(t + 1, fs.clone()),
            1 => D::C(t.saturating_sub(1), fs.clone()),
            2 => {
                let mut fs = fs.clone();
                fs.pop();
                D::C(*t, fs)
            }
            3 => {
                let mut fs = fs.clone();
                fs.push(gen_any(r, 1));
                D::C(*t, fs)
            }
            4 => D::L(fs.clone()),
            5 => D::C(*r.pick(&[0u64, 1, 2, 6, 7, 8, 127, 128]), fs.clone()),
            _ => D::I(BigInt::from(*t)),
        },
        D::L(xs) => match r.below(6) {
            0 => {
                let mut xs = xs.clone();
                xs.pop();
                D::L(xs)
            }
            1 => {
                let mut xs = xs.clone();
                xs.push(gen_any(r, 1));
                D::L(xs)
            }
            2 => D::C(0, xs.clone()),
            3 => {
                // list of 2-lists -> map
                let mut es = vec![];
                for x in xs {
                    if let D::L(kv) = x {
                        if kv.len() == 2 {
                            es.push((kv[0].clone(), kv[1].clone()));
                            continue;
                        }
                    }
                    return D::M(vec![]);
                }
                D::M(es)
            }
            4 => D::M(xs.iter().map(|x| (x.clone(), x.clone())).collect()),
            _ => D::B(vec![]),
        },
        D::M(es) => match r.below(4) {
            0 => D::L(es.iter().map(|(k, v)| D::L(vec![k.clone(), v.clone()])).collect()),
            1 => D::L(es.iter().map(|(k, v)| D::C(0, vec![k.clone(), v.clone()])).collect()),
            2 => {
                let mut es = es.clone();
                es.push((gen_any(r, 1), gen_any(r, 1)));
                D::M(es)
            }
            _ => D::C(0, vec![]),
        },
        D::I(i) => match r.below(3) {
            0 => D::B(vec![]),
            1 => D::C(0, vec![]),
            _ => D::L(vec![D::I(i.clone())]),
        },
        D::B(b) => match r.below(3) {
            0 => D::I(BigInt::from(b.len())),
            1 => D::L(vec![]),
            _ => D::C(1, vec![]),
        },
    }
}

fn mutate_at(r: &mut Prng, d: &D, target: &mut usize) -> D {
    if *target == 0 {
        *target = usize::MAX;
        return mutate_here(r, d);
    }
    *target -= 1;
    match d {
        D::C(t, fs) => D::C(*t, fs.iter().map(|f| if *target == usize::MAX { f.clone() } else { mutate_at(r, f, target) }).collect()),
        D::L(fs) => D::L(fs.iter().map(|f| if *target == usize::MAX { f.clone() } else { mutate_at(r, f, target) }).collect()),
        D::M(es) => D::M(es
            .iter()
            .map(|(k, v)| {
                let k2 = if *target == usize::MAX { k.clone() } else { mutate_at(r, k, target) };
                let v2 = if *target == usize::MAX { v.clone() } else { mutate_at(r, v, target) };
                (k2, v2)
            })
            .collect()),
        other => other.clone(),
    }
}
