//! C09 — builds are deterministic.
//!
//! `c09-det`: exploration on the real compiler, on generated stdlib-free projects
//! (several modules sharing constants, helpers, types; validators; unit and
//! property tests) and on the dependency-free example projects of the repository:
//!
//!  (a) **history independence**: one re-used `CodeGenerator` (the project's own,
//!      `Project::new_generator`) is driven through every sequence (with
//!      repetition) of ≤ 4 compile requests out of a request set, and through
//!      random longer histories; after every request its output must be the
//!      output of a *fresh* generator for that request (hex of the program(s),
//!      blueprint JSON for the whole-blueprint request);
//!  (b) **registration order**: the modules are type-checked and registered in
//!      different dependency-respecting orders (replica of `Project::type_check`);
//!      every request must compile to the same bytes;
//!  (c) **repeated in-process builds**: ≥ 20 × `Project::build` + `Project::check`
//!      per project, every one with fresh randomly-seeded hash maps and with the
//!      files created in a different order on disk; plutus.json bytes (both
//!      export modes) and the hex of every test program (captured by the
//!      run_runnables hook) must be identical;
//!  (d) **separate processes / thread counts**: the harness re-invokes itself
//!      under RAYON_NUM_THREADS ∈ {1,2,16}; same observables.
//!
//! `c09-sites`: runs `tools/sites.py` (inventory of hash-map iteration sites in
//! the compile path vs. the reviewed `checks/C09-sites.json`).
use crate::c17;
use crate::prng::Prng;
use crate::projgen::{self, GenProject};
use crate::report::{guarded, Report};
use crate::Ctx;
use aiken_lang::{
    ast::{Definition, Tracing, TypedFunction, TypedTest, TypedValidator},
    gen_uplc::CodeGenerator,
    test_framework::{RunnableKind, Test},
};
use aiken_project::{
    blueprint::Blueprint,
    config::ProjectConfig,
    module::{CheckedModule, CheckedModules},
    telemetry::CoverageMode,
    Project,
};
use serde_json::json;
use std::collections::{BTreeMap, HashMap};
use std::panic::AssertUnwindSafe;
use std::path::Path;

fn arg_usize(name: &str, default: usize) -> usize {
    let args: Vec<String> = std::env::args().collect();
    args.iter().position(|a| a == name).and_then(|i| args.get(i + 1)).and_then(|v| v.parse().ok()).unwrap_or(default)
}

pub fn fnv(s: &str) -> String {
    let mut h: u64 = 0xcbf29ce484222325;
    for b in s.bytes() {
        h ^= b as u64;
        h = h.wrapping_mul(0x100000001b3);
    }
    format!("{:016x}", h)
}

// ------------------------------------------------------------------ (a) requests on one generator

#[derive(Clone)]
enum Req<'a> {
    Validator(&'a CheckedModule, &'a TypedValidator),
    Test(&'a CheckedModule, &'a TypedTest),
    Function(&'a CheckedModule, &'a TypedFunction),
    Blueprint,
}

impl Req<'_> {
    fn label(&self) -> String {
        match self {
            Req::Validator(m, v) => format!("validator {}.{}", m.name, v.name),
            Req::Test(m, t) => format!("test {}.{}", m.name, t.name),
            Req::Function(m, f) => format!("fn {}.{}", m.name, f.name),
            Req::Blueprint => "blueprint".into(),
        }
    }
}

struct World<'a> {
    config: &'a ProjectConfig,
    modules: &'a CheckedModules,
}

/// the observable of one request: hex of the program(s) it produces, or the blueprint JSON;
/// second component: the *named* form (variable names with the interner's / id generator's
/// numbers) — not part of the bytes, but the state the replay mechanism promises to reproduce
fn compile(world: &World, generator: &mut CodeGenerator<'_>, req: &Req) -> Result<(String, String), String> {
    // the harness build's pre-optimisation sink (aiken-lang verif-hooks) grows with every program: keep it empty
    drop(aiken_lang::gen_uplc::verif_hooks::drain_pre_optimisation());
    guarded(AssertUnwindSafe(|| match req {
        Req::Validator(m, v) => {
            let p = generator.generate(v, &m.name);
            (projgen::program_hex(&p), p.to_pretty())
        }
        Req::Test(m, t) => {
            let test = Test::from_function_definition(generator, (*t).to_owned(), m.name.clone(), m.input_path.clone(), RunnableKind::Test);
            let mut out = BTreeMap::new();
            projgen::test_programs(std::slice::from_ref(&test), &mut out);
            let named = match &test {
                Test::UnitTest(u) => u.program.to_pretty(),
                Test::PropertyTest(p) => format!("{}\n{}", p.program.to_pretty(), p.fuzzer.program.to_pretty()),
                Test::Benchmark(b) => format!("{}\n{}", b.program.to_pretty(), b.sampler.program.to_pretty()),
            };
            (out.into_iter().map(|(k, v)| format!("{k}={v}")).collect::<Vec<_>>().join(";"), named)
        }
        Req::Function(m, f) => {
            let p = generator.generate_raw(&f.body, &f.arguments, &m.name);
            (projgen::program_hex(&p), p.to_pretty())
        }
        Req::Blueprint => match Blueprint::new(world.config, world.modules, generator, false) {
            Ok(b) => (serde_json::to_string_pretty(&b).unwrap_or_else(|e| format!("json-error {e}")), String::new()),
            Err(e) => (format!("blueprint-error {e:?}"), String::new()),
        },
    }))
}

fn is_monomorphic_data_fn(f: &TypedFunction) -> bool {
    // `aiken export`-style compilation needs concrete argument types
    !f.arguments.is_empty() && f.arguments.iter().all(|a| !a.tipo.is_generic() && !a.tipo.is_function()) && !f.return_type.is_function() && !f.return_type.is_generic()
}

fn history_exploration(rep: &mut Report, p: &GenProject, dir: &Path, tl: u8, r: &mut Prng, m_exh: usize, n_random: usize, random_len: usize) {
    let tracing = projgen::tracing_of(tl);
    let mut project = match Project::new(dir.to_path_buf(), projgen::Listener::default()) {
        Ok(p) => p,
        Err(_) => return,
    };
    // type-check only (CodeGenMode::NoOp)
    let ok = guarded(AssertUnwindSafe(|| project.check(true, None, false, false, 0, 1, CoverageMode::default(), tracing, true, None).is_ok()));
    if ok != Ok(true) {
        rep.count("history:project-does-not-compile");
        return;
    }
    let config = match ProjectConfig::load(dir) {
        Ok(c) => c,
        Err(_) => return,
    };
    let map: HashMap<String, CheckedModule> = project.modules().into_iter().map(|m| (m.name.clone(), m)).collect();
    let modules = CheckedModules::from(map);
    let world = World { config: &config, modules: &modules };
    // request set, in a canonical order
    let mut names: Vec<&String> = modules.keys().collect();
    names.sort();
    let mut reqs: Vec<Req> = vec![];
    for n in names {
        let m = &modules[n];
        if m.package != config.name.to_string() {
            continue;
        }
        for d in m.ast.definitions() {
            match d {
                Definition::Validator(v) => reqs.push(Req::Validator(m, v)),
                Definition::Test(t) => reqs.push(Req::Test(m, t)),
                Definition::Fn(f) if is_monomorphic_data_fn(f) => reqs.push(Req::Function(m, f)),
                _ => {}
            }
        }
    }
    if modules.validators().next().is_some() {
        reqs.push(Req::Blueprint);
    }
    // fresh outputs; a request that panics on a fresh generator is not a request
    let mut fresh: Vec<String> = vec![];
    let mut fresh_named: Vec<String> = vec![];
    let mut kept: Vec<Req> = vec![];
    for q in reqs {
        let mut g = project.new_generator(tracing);
        match compile(&world, &mut g, &q) {
            Ok((out, named)) => {
                // fresh twice: the baseline itself must be reproducible
                let mut g2 = project.new_generator(tracing);
                let again = compile(&world, &mut g2, &q).map(|x| x.0);
                rep.evaluations += 2;
                if again.as_ref() != Ok(&out) {
                    rep.fail(
                        &format!("c09:fresh-twice:{}:{}", p.name, q.label()),
                        "two fresh code generators produce different output for the same request",
                        p.to_json(),
                        json!({"request": q.label(), "tracing": tl, "first": fnv(&out), "second": again.map(|s| fnv(&s))}),
                    );
                }
                rep.count(&format!("request:{}", q.label().split(' ').next().unwrap_or("")));
                fresh.push(out);
                fresh_named.push(named);
                kept.push(q);
            }
            Err(_) => rep.count("request-dropped:fresh-compile-panics"),
        }
    }
    if kept.is_empty() {
        return;
    }
    let mut named_diff_reported = false;
    let mut run_history = |rep: &mut Report, h: &[usize], kind: &str| {
        let mut g = project.new_generator(tracing);
        for (step, &i) in h.iter().enumerate() {
            let (out, named) = match compile(&world, &mut g, &kept[i]) {
                Ok((o, n)) => (Ok(o), n),
                Err(e) => (Err(e), String::new()),
            };
            rep.evaluations += 1;
            if out.is_ok() && named != fresh_named[i] {
                // names carry the interner / id-generator numbers: the replayed state is not the fresh state
                rep.count("history:named-form-differs-from-fresh(not in the bytes)");
                if !named_diff_reported {
                    named_diff_reported = true;
                    let hist: Vec<String> = h[..=step].iter().map(|j| kept[*j].label()).collect();
                    rep.notes.push(format!("named form differs after history {:?} (project {}, tracing {})", hist, p.name, tl));
                }
            }
            if out.as_ref() != Ok(&fresh[i]) {
                let hist: Vec<String> = h[..=step].iter().map(|j| kept[*j].label()).collect();
                rep.fail(
                    &format!("c09:history:{}:{}", p.name, fnv(&hist.join("|"))),
                    "a re-used code generator produces a different program than a fresh one",
                    p.to_json(),
                    json!({"tracing": tl, "history_reused": hist, "history_fresh": [kept[i].label()],
                           "request": kept[i].label(),
                           "fresh": fresh[i].chars().take(400).collect::<String>(),
                           "reused": out.map(|s| s.chars().take(400).collect::<String>())}),
                );
                return;
            }
        }
        rep.count(&format!("history:{kind}:len={}", if h.len() <= 4 { h.len().to_string() } else { ">4".into() }));
        rep.nontrivial.insert(format!("{}:{}", p.name, fnv(&h.iter().map(|i| i.to_string()).collect::<Vec<_>>().join(","))));
    };
    // exhaustive: all sequences with repetition of length ≤ 4 over a subset that mixes the request kinds
    let mut subset: Vec<usize> = vec![];
    {
        let mut idx: Vec<usize> = (0..kept.len()).collect();
        // prefer: blueprint, one validator, property tests, unit tests referring to constants
        idx.sort_by_key(|i| match &kept[*i] {
            Req::Blueprint => 0,
            Req::Validator(..) => 1,
            Req::Test(_, t) if !t.arguments.is_empty() => 2,
            Req::Test(..) => 3,
            Req::Function(..) => 4,
        });
        let mut per_kind: BTreeMap<u8, usize> = BTreeMap::new();
        // a deterministic spread, then random fill
        for i in idx {
            let k = match &kept[i] {
                Req::Blueprint => 0,
                Req::Validator(..) => 1,
                Req::Test(_, t) if !t.arguments.is_empty() => 2,
                Req::Test(..) => 3,
                Req::Function(..) => 4,
            };
            let c = per_kind.entry(k).or_insert(0);
            let cap = if k == 3 { 2 } else { 1 };
            if *c < cap && subset.len() < m_exh {
                *c += 1;
                subset.push(i);
            }
        }
        while subset.len() < m_exh.min(kept.len()) {
            let i = r.below(kept.len());
            if !subset.contains(&i) {
                subset.push(i);
            }
        }
    }
    let m = subset.len();
    for len in 1..=4usize {
        let total = m.pow(len as u32);
        for code in 0..total {
            let mut h = vec![];
            let mut c = code;
            for _ in 0..len {
                h.push(subset[c % m]);
                c /= m;
            }
            run_history(rep, &h, "exhaustive");
        }
    }
    // random longer histories over all requests
    for _ in 0..n_random {
        let len = 5 + r.below(random_len);
        let h: Vec<usize> = (0..len).map(|_| r.below(kept.len())).collect();
        run_history(rep, &h, "random");
    }
}

// ------------------------------------------------------------------ (b) registration order (replica of type_check)

mod replica {
    use aiken_lang::{
        ast::{DataTypeKey, FunctionAccessKey, ModuleKind, TraceLevel, Tracing, TypedDataType, TypedFunction},
        builtins,
        expr::TypedExpr,
        gen_uplc::CodeGenerator,
        line_numbers::LineNumbers,
        parser,
        plutus_version::PlutusVersion,
        tipo::TypeInfo,
        utils, IdGenerator,
    };
    use aiken_project::module::{CheckedModule, ParsedModule};
    use indexmap::IndexMap;
    use std::collections::{BTreeMap, HashMap};
    use std::path::PathBuf;

    pub struct Replica {
        pub package: String,
        pub id_gen: IdGenerator,
        pub functions: IndexMap<FunctionAccessKey, TypedFunction>,
        pub constants: IndexMap<FunctionAccessKey, TypedExpr>,
        pub data_types: IndexMap<DataTypeKey, TypedDataType>,
        pub module_types: HashMap<String, TypeInfo>,
        pub module_sources: HashMap<String, (String, LineNumbers)>,
        pub checked: BTreeMap<String, CheckedModule>,
    }

    pub struct Src {
        pub name: String,
        pub kind: ModuleKind,
        pub path: String,
        pub code: String,
        pub deps: Vec<String>,
    }

    pub fn sources(files: &[(String, String)]) -> Result<Vec<Src>, String> {
        let mut out = vec![];
        for (rel, code) in files {
            let (kind, name) = if let Some(n) = rel.strip_prefix("lib/") {
                (ModuleKind::Lib, n)
            } else if let Some(n) = rel.strip_prefix("validators/") {
                (ModuleKind::Validator, n)
            } else {
                continue;
            };
            let name = name.trim_end_matches(".ak").replace('-', "_");
            let (ast, _) = parser::module(code, kind).map_err(|e| format!("parse {rel}: {e:?}"))?;
            let deps = ast.dependencies(&[]);
            out.push(Src { name, kind, path: rel.clone(), code: code.clone(), deps });
        }
        Ok(out)
    }

    impl Replica {
        /// type-check and register the modules in the given order
        pub fn new(package: &str, srcs: &[Src], order: &[usize], tracing: Tracing) -> Result<Replica, String> {
            let id_gen = IdGenerator::new();
            let mut module_types = HashMap::new();
            module_types.insert("aiken".to_string(), builtins::prelude(&id_gen));
            module_types.insert("aiken/builtin".to_string(), builtins::plutus(&id_gen));
            let functions = builtins::prelude_functions(&id_gen, &module_types);
            let data_types = builtins::prelude_data_types(&id_gen);
            let mut r = Replica {
                package: package.to_string(),
                id_gen,
                functions,
                constants: IndexMap::new(),
                data_types,
                module_types,
                module_sources: HashMap::new(),
                checked: BTreeMap::new(),
            };
            for &i in order {
                let s = &srcs[i];
                let (mut ast, extra) = parser::module(&s.code, s.kind).map_err(|e| format!("parse: {e:?}"))?;
                ast.name.clone_from(&s.name);
                let parsed = ParsedModule {
                    kind: s.kind,
                    ast,
                    code: s.code.clone(),
                    name: s.name.clone(),
                    path: PathBuf::from(&s.path),
                    extra,
                    package: package.to_string(),
                };
                let (checked, _warnings) = parsed
                    .infer(
                        &r.id_gen,
                        package,
                        tracing,
                        None,
                        true,
                        &mut r.module_sources,
                        &mut r.module_types,
                        &mut r.functions,
                        &mut r.constants,
                        &mut r.data_types,
                    )
                    .map_err(|e| format!("infer {}: {:?}", s.name, e).chars().take(600).collect::<String>())?;
                r.checked.insert(checked.name.clone(), checked);
            }
            let _ = TraceLevel::Silent;
            Ok(r)
        }

        pub fn new_generator(&'_ self, tracing: Tracing) -> CodeGenerator<'_> {
            CodeGenerator::new(
                PlutusVersion::default(),
                utils::indexmap::as_ref_values(&self.functions),
                utils::indexmap::as_ref_values(&self.constants),
                utils::indexmap::as_ref_values(&self.data_types),
                utils::indexmap::as_str_ref_values(&self.module_types),
                utils::indexmap::as_str_ref_values(&self.module_sources),
                tracing,
            )
        }
    }
}

/// a random order that respects the dependencies (random tie-breaking)
fn random_topo(srcs: &[replica::Src], r: &mut Prng) -> Vec<usize> {
    let n = srcs.len();
    let idx: HashMap<&str, usize> = srcs.iter().enumerate().map(|(i, s)| (s.name.as_str(), i)).collect();
    let mut done = vec![false; n];
    let mut order = vec![];
    while order.len() < n {
        let ready: Vec<usize> = (0..n)
            .filter(|&i| !done[i] && srcs[i].deps.iter().all(|d| idx.get(d.as_str()).is_none_or(|j| done[*j])))
            .collect();
        if ready.is_empty() {
            break; // cycle: the project is rejected anyway
        }
        let pick = ready[r.below(ready.len())];
        done[pick] = true;
        order.push(pick);
    }
    order
}

/// every test / validator compiled by a fresh generator each; key → hex
fn replica_outputs(rp: &replica::Replica, tracing: Tracing) -> Result<BTreeMap<String, String>, String> {
    guarded(AssertUnwindSafe(|| {
        let mut out = BTreeMap::new();
        for (name, m) in &rp.checked {
            for d in m.ast.definitions() {
                match d {
                    Definition::Validator(v) => {
                        drop(aiken_lang::gen_uplc::verif_hooks::drain_pre_optimisation());
                        let mut g = rp.new_generator(tracing);
                        out.insert(format!("validator {name}.{}", v.name), projgen::program_hex(&g.generate(v, name)));
                    }
                    Definition::Test(t) => {
                        drop(aiken_lang::gen_uplc::verif_hooks::drain_pre_optimisation());
                        let mut g = rp.new_generator(tracing);
                        let test = Test::from_function_definition(&mut g, t.to_owned(), name.clone(), m.input_path.clone(), RunnableKind::Test);
                        let mut progs = BTreeMap::new();
                        projgen::test_programs(std::slice::from_ref(&test), &mut progs);
                        for (k, v) in progs {
                            out.insert(format!("test {k}"), v);
                        }
                    }
                    _ => {}
                }
            }
        }
        out
    }))
}

fn registration_exploration(rep: &mut Report, p: &GenProject, tl: u8, r: &mut Prng, n_orders: usize) {
    let tracing = projgen::tracing_of(tl);
    let srcs = match replica::sources(&p.files) {
        Ok(s) if !s.is_empty() => s,
        _ => return,
    };
    let mut baseline: Option<(Vec<String>, BTreeMap<String, String>)> = None;
    let mut seen_orders = std::collections::BTreeSet::new();
    for _ in 0..n_orders {
        let order = random_topo(&srcs, r);
        let names: Vec<String> = order.iter().map(|i| srcs[*i].name.clone()).collect();
        if !seen_orders.insert(names.clone()) {
            rep.count("registration:order-repeated");
            continue;
        }
        let rp = match guarded(AssertUnwindSafe(|| replica::Replica::new("verif/replica", &srcs, &order, tracing))) {
            Ok(Ok(rp)) => rp,
            Ok(Err(_)) | Err(_) => {
                rep.count("registration:project-does-not-compile");
                return;
            }
        };
        let outs = match replica_outputs(&rp, tracing) {
            Ok(o) => o,
            Err(panic) => {
                rep.count("registration:compile-panics");
                let _ = panic;
                return;
            }
        };
        rep.evaluations += outs.len() as u64;
        rep.count("registration:order");
        rep.nontrivial.insert(format!("{}:order:{}", p.name, fnv(&names.join(","))));
        match &baseline {
            None => baseline = Some((names, outs)),
            Some((bnames, b)) => {
                if *b != outs {
                    let diff: Vec<_> = b.iter().filter(|(k, v)| outs.get(*k) != Some(v)).map(|(k, _)| k.clone()).take(6).collect();
                    rep.fail(
                        &format!("c09:registration-order:{}:{}", p.name, diff.first().cloned().unwrap_or_default()),
                        "the order in which modules are type-checked and registered changes the generated programs",
                        p.to_json(),
                        json!({"tracing": tl, "history_a": bnames, "history_b": names, "programs_that_differ": diff}),
                    );
                    return;
                }
            }
        }
    }
}

// ------------------------------------------------------------------ (c) repeated in-process builds

#[derive(PartialEq, Clone)]
pub struct Observation {
    pub blueprint: String,
    pub blueprint_all_types: String,
    pub tests: BTreeMap<String, String>,
    pub test_order: Vec<String>,
}

fn build_with(dir: &Path, tracing: Tracing, all: bool) -> Result<Vec<u8>, String> {
    use aiken_project::options::BlueprintExport;
    let mut project = Project::new(dir.to_path_buf(), projgen::Listener::default()).map_err(|e| format!("config: {e:?}"))?;
    let bp = dir.join(if all { "plutus-all.json" } else { "plutus.json" });
    let _ = std::fs::remove_file(&bp);
    project
        .build(false, tracing, bp.clone(), if all { BlueprintExport::AllTypes } else { BlueprintExport::OnlyBinaryInterface }, None)
        .map_err(|es| format!("build: {}", es.iter().map(|e| format!("{e:?}")).collect::<Vec<_>>().join(" | ").chars().take(800).collect::<String>()))?;
    std::fs::read(&bp).map_err(|e| format!("no blueprint: {e}"))
}

/// one full observation of a project directory (build ×2, check ×1 with the hook installed)
pub fn observe(dir: &Path, tl: u8, with_all: bool) -> Result<Observation, String> {
    let tracing = projgen::tracing_of(tl);
    let r = guarded(AssertUnwindSafe(|| -> Result<Observation, String> {
        drop(aiken_lang::gen_uplc::verif_hooks::drain_pre_optimisation());
        let blueprint = String::from_utf8_lossy(&build_with(dir, tracing, false)?).to_string();
        let blueprint_all_types =
            if with_all { String::from_utf8_lossy(&build_with(dir, tracing, true)?).to_string() } else { String::new() };
        let _ = c17::take_audits();
        projgen::check(dir, tracing, 42, 1)?;
        let audits = c17::take_audits();
        let (tests, test_order) = match audits.into_iter().next() {
            Some(a) => (a.programs, a.order),
            None => (BTreeMap::new(), vec![]),
        };
        Ok(Observation { blueprint, blueprint_all_types, tests, test_order })
    }));
    match r {
        Ok(x) => x,
        Err(p) => Err(format!("panic: {p}")),
    }
}

fn describe_diff(a: &Observation, b: &Observation) -> serde_json::Value {
    let mut what = vec![];
    if a.blueprint != b.blueprint {
        what.push("plutus.json".to_string());
    }
    if a.blueprint_all_types != b.blueprint_all_types {
        what.push("plutus.json (all types)".to_string());
    }
    for (k, v) in &a.tests {
        if b.tests.get(k) != Some(v) {
            what.push(format!("test program {k}"));
        }
    }
    for k in b.tests.keys() {
        if !a.tests.contains_key(k) {
            what.push(format!("test program {k} (only in second)"));
        }
    }
    what.truncate(8);
    let first_line = a.blueprint.lines().zip(b.blueprint.lines()).find(|(x, y)| x != y).map(|(x, y)| json!({"first": x.chars().take(200).collect::<String>(), "second": y.chars().take(200).collect::<String>()}));
    json!({"differs": what, "first_differing_blueprint_line": first_line})
}

/// `aiken build --all-types` overflows the stack on some projects (a crash, not a nondeterminism:
/// recorded, see notes/C09.md); a stack overflow cannot be caught in-process, so projects that
/// declare a public generic type are probed in a child process first
fn all_types_export_survives(rep: &mut Report, p: &GenProject, dir: &Path, tl: u8) -> bool {
    let generic_public_type = p.files.iter().any(|(_, src)| {
        src.lines().any(|l| {
            let l = l.trim_start();
            (l.starts_with("pub type ") || l.starts_with("pub opaque type ")) && l.contains('<')
        })
    });
    if !generic_public_type {
        return true;
    }
    projgen::write_project(p, dir, None);
    match c17::run_child("c09-child", dir, 1, &[tl.to_string(), "1".into()]) {
        Ok(_) => true,
        Err(e) => {
            rep.count("all-types-export-crashes-the-process(skipped; C10 defect, proposed_fixes/C10-blueprint-reference-self-generic.diff)");
            if rep.notes.len() < 6 {
                rep.notes.push(format!("`aiken build --all-types` kills the process on project {} ({}); all-types observable skipped for it", p.name, e.chars().take(80).collect::<String>()));
            }
            false
        }
    }
}

fn repeated_builds(rep: &mut Report, p: &GenProject, dir: &Path, tl: u8, r: &mut Prng, n: usize) -> Option<(Observation, bool)> {
    let with_all = all_types_export_survives(rep, p, dir, tl);
    let mut baseline: Option<Observation> = None;
    let mut orders_seen = std::collections::BTreeSet::new();
    for k in 0..n {
        // create the files in a different order each time (discovery order)
        let mut order: Vec<usize> = (0..p.files.len()).collect();
        if k > 0 {
            for i in (1..order.len()).rev() {
                order.swap(i, r.below(i + 1));
            }
        }
        projgen::write_project(p, dir, Some(&order));
        let obs = match observe(dir, tl, with_all) {
            Ok(o) => o,
            Err(e) => {
                if e.starts_with("panic") {
                    rep.fail(&format!("c09:panic:{}", p.name), "build/check panicked", p.to_json(), json!({"error": e, "build": k}));
                } else {
                    rep.count("repeat:project-does-not-compile");
                    if p.name.starts_with('g') {
                        rep.notes.push(format!("generated project {} rejected: {}", p.name, e.chars().take(300).collect::<String>()));
                    }
                }
                return None;
            }
        };
        rep.evaluations += 1;
        rep.count("repeat:build+check");
        orders_seen.insert(obs.test_order.clone());
        match &baseline {
            None => {
                rep.nontrivial.insert(format!("{}:{}", p.name, fnv(&obs.blueprint)));
                if rep.samples.len() < 3 {
                    rep.sample(json!({"project": p.name, "files": p.files.len(), "blueprint_bytes": obs.blueprint.len(), "test_programs": obs.tests.len(), "tracing": tl}));
                }
                baseline = Some(obs);
            }
            Some(b) => {
                if b.blueprint != obs.blueprint || b.blueprint_all_types != obs.blueprint_all_types || b.tests != obs.tests {
                    rep.fail(
                        &format!("c09:repeat:{}", p.name),
                        "two in-process builds of the same sources with the same options produce different bytes",
                        p.to_json(),
                        json!({"tracing": tl, "history_a": "build #0", "history_b": format!("build #{k} (files created in order {:?})", order), "diff": describe_diff(b, &obs)}),
                    );
                    return baseline.map(|b| (b, with_all));
                }
            }
        }
    }
    if orders_seen.len() > 1 {
        rep.count("repeat:test-collection-order-varies-between-builds(not an output)");
    }
    baseline.map(|b| (b, with_all))
}

// ------------------------------------------------------------------ (d) child processes

pub fn child(args: &[String]) -> ! {
    std::panic::set_hook(Box::new(|_| {}));
    projgen::silence_stderr();
    c17::install_hook();
    let dir = std::path::PathBuf::from(&args[2]);
    let tl: u8 = args[3].parse().unwrap();
    let with_all = args.get(4).map(|a| a == "1").unwrap_or(true);
    let doc = match observe(&dir, tl, with_all) {
        Ok(o) => json!({"ok": true, "blueprint": o.blueprint, "blueprint_all_types": o.blueprint_all_types, "tests": o.tests}),
        Err(e) => json!({"ok": false, "error": e}),
    };
    println!("{}", doc);
    std::process::exit(0)
}

fn child_runs(rep: &mut Report, p: &GenProject, dir: &Path, tl: u8, base: &Observation, with_all: bool) {
    for &n in &[1usize, 2, 16] {
        match c17::run_child("c09-child", dir, n, &[tl.to_string(), if with_all { "1".into() } else { "0".into() }]) {
            Ok(doc) => {
                rep.evaluations += 1;
                rep.count(&format!("child:RAYON_NUM_THREADS={n}"));
                let tests: BTreeMap<String, String> = doc
                    .get("tests")
                    .and_then(|t| t.as_object())
                    .map(|o| o.iter().map(|(k, v)| (k.clone(), v.as_str().unwrap_or("").to_string())).collect())
                    .unwrap_or_default();
                let o = Observation {
                    blueprint: doc.get("blueprint").and_then(|v| v.as_str()).unwrap_or("").to_string(),
                    blueprint_all_types: doc.get("blueprint_all_types").and_then(|v| v.as_str()).unwrap_or("").to_string(),
                    tests,
                    test_order: vec![],
                };
                if o.blueprint != base.blueprint || o.blueprint_all_types != base.blueprint_all_types || o.tests != base.tests {
                    rep.fail(
                        &format!("c09:process:{}:threads={n}", p.name),
                        "a separate process (other hash seeds, other thread count) produces different bytes from the same sources",
                        p.to_json(),
                        json!({"tracing": tl, "history_a": "in-process build #0", "history_b": format!("child process, RAYON_NUM_THREADS={n}"), "diff": describe_diff(base, &o), "child_error": doc.get("error")}),
                    );
                }
            }
            Err(e) => rep.notes.push(format!("child run failed: {e}")),
        }
    }
}

// ------------------------------------------------------------------ entries

pub fn run(ctx: &Ctx) -> Report {
    let mut rep = Report::new(
        "c09-det",
        "one case = one compile request answered by a re-used generator and compared with a fresh one (history), one registration order, \
         one repeated build+check, or one child-process build; distinct non-trivial = distinct (project, history) / (project, order) / (project, blueprint)",
    );
    let n_gen = arg_usize("--projects", if ctx.thorough { 16 } else { 4 });
    let n_ex = arg_usize("--examples", if ctx.thorough { 99 } else { 12 });
    let n_hist = arg_usize("--history-projects", if ctx.thorough { 8 } else { 2 });
    let m_exh = arg_usize("--exhaustive-requests", if ctx.thorough { 5 } else { 4 });
    let n_random = arg_usize("--random-histories", if ctx.thorough { 60 } else { 12 });
    let repeats = arg_usize("--repeats", if ctx.thorough { 30 } else { 20 });
    let n_orders = arg_usize("--orders", if ctx.thorough { 24 } else { 8 });
    let n_child = arg_usize("--children", if ctx.thorough { 6 } else { 2 });
    let mut r = Prng::new(ctx.seed ^ 0x0C09);
    let projects = c17::projects_for(ctx, &mut r, n_gen, n_ex);
    let scratch = projgen::scratch_root();
    projgen::silence_stderr();
    c17::install_hook();
    let mut hist_done = 0;
    for (pi, p) in projects.iter().enumerate() {
        let dir = scratch.join(format!("c09-{pi}"));
        let tl = r.below(3) as u8;
        if let Ok(f) = std::env::var("VERIF_TRACE") {
            use std::io::Write;
            if let Ok(mut fh) = std::fs::OpenOptions::new().create(true).append(true).open(f) {
                let _ = writeln!(fh, "c09 project {pi} {} tracing={tl}", p.name);
            }
        }
        let generated = !p.name.starts_with("example-");
        // examples get fewer repetitions (there are many of them)
        let reps = if generated { repeats } else { (repeats / 4).max(3) };
        let base = repeated_builds(&mut rep, p, &dir, tl, &mut r, reps);
        if let Some((base, with_all)) = &base {
            if pi < n_child {
                child_runs(&mut rep, p, &dir, tl, base, *with_all);
            }
            registration_exploration(&mut rep, p, tl, &mut r, if generated { n_orders } else { 3 });
            if generated && hist_done < n_hist {
                hist_done += 1;
                history_exploration(&mut rep, p, &dir, tl, &mut r, m_exh, n_random, 30);
                // the compiler-generated helpers only exist when traces are kept: explore that level too
                if tl != 2 {
                    history_exploration(&mut rep, p, &dir, 2, &mut r, 3, n_random, 30);
                }
            } else {
                // cheap version everywhere: random histories only
                history_exploration(&mut rep, p, &dir, tl, &mut r, 2, if generated { n_random } else { 3 }, 12);
            }
        }
        let _ = std::fs::remove_dir_all(&dir);
    }
    c17::remove_hook();
    projgen::cleanup();
    rep
}

/// `c09-sites`: the reviewed inventory of hash-map iteration sites
pub fn sites(_ctx: &Ctx) -> Report {
    let mut rep = Report::new(
        "c09-sites",
        "one case = one HashMap/HashSet/IndexMap iteration site in the compile-path files, matched against the reviewed inventory checks/C09-sites.json",
    );
    let root = std::env::var("VERIF_ROOT").unwrap_or_else(|_| "/verif".into());
    let out = std::process::Command::new("python3").arg(format!("{root}/tools/sites.py")).arg("--json").output();
    let out = match out {
        Ok(o) => o,
        Err(e) => {
            rep.fail("site:tool", "tools/sites.py could not be run", json!({}), json!({"error": e.to_string(), "kind": "broken-obligation"}));
            return rep;
        }
    };
    let text = String::from_utf8_lossy(&out.stdout);
    let doc: serde_json::Value = match serde_json::from_str(&text) {
        Ok(d) => d,
        Err(e) => {
            rep.fail("site:tool", "tools/sites.py did not print its JSON report (fail-closed)", json!({}), json!({"error": e.to_string(), "stderr": String::from_utf8_lossy(&out.stderr).chars().take(600).collect::<String>()}));
            return rep;
        }
    };
    for s in doc.get("sites").and_then(|v| v.as_array()).cloned().unwrap_or_default() {
        rep.evaluations += 1;
        let key = s.get("key").and_then(|v| v.as_str()).unwrap_or("?").to_string();
        let class = s.get("class").and_then(|v| v.as_str()).unwrap_or("unreviewed").to_string();
        rep.count(&format!("class:{class}"));
        rep.nontrivial.insert(key.clone());
        if rep.samples.len() < 6 {
            rep.sample(s.clone());
        }
    }
    for pblm in doc.get("problems").and_then(|v| v.as_array()).cloned().unwrap_or_default() {
        let key = pblm.get("key").and_then(|v| v.as_str()).unwrap_or("?").to_string();
        let what = pblm.get("what").and_then(|v| v.as_str()).unwrap_or("unreviewed site").to_string();
        let mut f = json!({"key": format!("site:{key}"), "what": what, "input": pblm, "detail": {"obligation": "every hash-map iteration on the compile path is classified sorted-after / commutative-fold / not-on-output-path / indexmap-ordered"}, "kind": "broken-obligation"});
        if rep.property_failures.len() < 50 {
            rep.property_failures.push(f.take());
        }
    }
    rep
}
