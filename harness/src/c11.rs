//! C11: name <-> de Bruijn conversions, CodeGenInterner and the parser interner
//! against the Lean model M-DB (driver `db`), plus property-level checks that use
//! the real code and an independent binder resolution written here.
//!
//! extra arguments:  --name-size N   exhaustive Term<Name> over 2 texts x 3 uniques up to N nodes
//!                   --name3-size N  exhaustive Term<Name> over {a0,b0,a1} up to N nodes
//!                   --db-size N     exhaustive Term<DeBruijn>/Term<NamedDeBruijn> up to N nodes
//!                   --n N           seeded random terms of each of the three forms (size <= 60)
use crate::{
    driver,
    prng::Prng,
    report::{guarded, Report},
    wire, Ctx,
};
use serde_json::json;
use std::collections::BTreeMap;
use std::panic::AssertUnwindSafe;
use std::rc::Rc;
use strum::IntoEnumIterator;
use uplc::ast::{Constant, DeBruijn, FakeNamedDeBruijn, Name, NamedDeBruijn, Program, Term, Unique};
use uplc::builtins::DefaultFunction;
use uplc::machine::cost_model::ExBudget;
use uplc::optimize::interner::CodeGenInterner;
use uplc::parser::interner::Interner as ParserInterner;

type DbErr = <Term<DeBruijn> as TryFrom<Term<Name>>>::Error;

// ------------------------------------------------------------------ small helpers
fn name(text: &str, unique: isize) -> Name {
    Name { text: text.to_string(), unique: Unique::new(unique) }
}
fn uq(n: &Name) -> isize {
    n.unique.into()
}
fn ndb(text: &str, index: usize) -> NamedDeBruijn {
    NamedDeBruijn { text: text.to_string(), index: DeBruijn::new(index) }
}

fn err_str(e: &DbErr) -> String {
    match e {
        DbErr::FreeUnique(n) => format!("err free-unique {} {}", wire::hex(n.text.as_bytes()), uq(n)),
        DbErr::FreeIndex(i) => format!("err free-index {}", i.inner()),
    }
}

fn outcome<T: wire::Binder>(r: &Result<Result<Term<T>, DbErr>, String>) -> String {
    match r {
        Ok(Ok(t)) => format!("ok {}", wire::term(t)),
        Ok(Err(e)) => err_str(e),
        Err(_) => "err panic".to_string(),
    }
}

fn call<T>(f: impl FnOnce() -> T) -> Result<T, String> {
    guarded(AssertUnwindSafe(f))
}

// ------------------------------------------------------------------ independent binder resolution
/// the first (left to right) variable occurrence without an enclosing binder of the same unique
fn first_free(t: &Term<Name>, env: &mut Vec<isize>) -> Option<Name> {
    match t {
        Term::Var(n) => {
            if env.contains(&uq(n)) {
                None
            } else {
                Some(n.as_ref().clone())
            }
        }
        Term::Delay(t) | Term::Force(t) => first_free(t, env),
        Term::Lambda { parameter_name, body } => {
            env.push(uq(parameter_name));
            let r = first_free(body, env);
            env.pop();
            r
        }
        Term::Apply { function, argument } => first_free(function, env).or_else(|| first_free(argument, env)),
        Term::Constant(_) | Term::Error | Term::Builtin(_) => None,
        Term::Constr { fields, .. } => fields.iter().find_map(|f| first_free(f, env)),
        Term::Case { constr, branches } => {
            first_free(constr, env).or_else(|| branches.iter().find_map(|f| first_free(f, env)))
        }
    }
}

/// what a variable refers to: Some(k) = the k-th enclosing binder counted from the innermost (1-based)
fn resolve<K: PartialEq>(env: &[K], k: &K) -> Option<usize> {
    env.iter().rev().position(|x| x == k).map(|p| p + 1)
}

/// expected de Bruijn form by a key function on names (None = some variable is free)
fn expected_db<K: PartialEq>(t: &Term<Name>, key: &dyn Fn(&Name) -> K, env: &mut Vec<K>) -> Option<Term<DeBruijn>> {
    Some(match t {
        Term::Var(n) => Term::Var(Rc::new(DeBruijn::new(resolve(env, &key(n))?))),
        Term::Delay(t) => Term::Delay(Rc::new(expected_db(t, key, env)?)),
        Term::Force(t) => Term::Force(Rc::new(expected_db(t, key, env)?)),
        Term::Lambda { parameter_name, body } => {
            env.push(key(parameter_name));
            let b = expected_db(body, key, env);
            env.pop();
            Term::Lambda { parameter_name: Rc::new(DeBruijn::new(0)), body: Rc::new(b?) }
        }
        Term::Apply { function, argument } => Term::Apply {
            function: Rc::new(expected_db(function, key, env)?),
            argument: Rc::new(expected_db(argument, key, env)?),
        },
        Term::Constant(c) => Term::Constant(c.clone()),
        Term::Error => Term::Error,
        Term::Builtin(b) => Term::Builtin(*b),
        Term::Constr { tag, fields } => Term::Constr {
            tag: *tag,
            fields: fields.iter().map(|f| expected_db(f, key, env)).collect::<Option<Vec<_>>>()?,
        },
        Term::Case { constr, branches } => Term::Case {
            constr: Rc::new(expected_db(constr, key, env)?),
            branches: branches.iter().map(|f| expected_db(f, key, env)).collect::<Option<Vec<_>>>()?,
        },
    })
}

/// alpha-equivalence of two named terms (binding by unique, texts ignored)
fn alpha_eq(a: &Term<Name>, b: &Term<Name>, ea: &mut Vec<isize>, eb: &mut Vec<isize>) -> bool {
    match (a, b) {
        (Term::Var(x), Term::Var(y)) => {
            let (rx, ry) = (resolve(ea, &uq(x)), resolve(eb, &uq(y)));
            rx == ry && (rx.is_some() || uq(x) == uq(y))
        }
        (Term::Delay(x), Term::Delay(y)) | (Term::Force(x), Term::Force(y)) => alpha_eq(x, y, ea, eb),
        (Term::Lambda { parameter_name: p, body: x }, Term::Lambda { parameter_name: q, body: y }) => {
            ea.push(uq(p));
            eb.push(uq(q));
            let r = alpha_eq(x, y, ea, eb);
            ea.pop();
            eb.pop();
            r
        }
        (Term::Apply { function: f, argument: x }, Term::Apply { function: g, argument: y }) => {
            alpha_eq(f, g, ea, eb) && alpha_eq(x, y, ea, eb)
        }
        (Term::Constant(c), Term::Constant(d)) => c == d,
        (Term::Error, Term::Error) => true,
        (Term::Builtin(c), Term::Builtin(d)) => c == d,
        (Term::Constr { tag: s, fields: x }, Term::Constr { tag: t, fields: y }) => {
            s == t && x.len() == y.len() && x.iter().zip(y).all(|(p, q)| alpha_eq(p, q, ea, eb))
        }
        (Term::Case { constr: c, branches: x }, Term::Case { constr: d, branches: y }) => {
            alpha_eq(c, d, ea, eb) && x.len() == y.len() && x.iter().zip(y).all(|(p, q)| alpha_eq(p, q, ea, eb))
        }
        _ => false,
    }
}

/// generic traversal: f(is_binder, depth, payload)
fn walk<T>(t: &Term<T>, depth: usize, f: &mut dyn FnMut(bool, usize, &T)) {
    match t {
        Term::Var(n) => f(false, depth, n),
        Term::Delay(t) | Term::Force(t) => walk(t, depth, f),
        Term::Lambda { parameter_name, body } => {
            f(true, depth, parameter_name);
            walk(body, depth + 1, f)
        }
        Term::Apply { function, argument } => {
            walk(function, depth, f);
            walk(argument, depth, f)
        }
        Term::Constant(_) | Term::Error | Term::Builtin(_) => {}
        Term::Constr { fields, .. } => fields.iter().for_each(|x| walk(x, depth, f)),
        Term::Case { constr, branches } => {
            walk(constr, depth, f);
            branches.iter().for_each(|x| walk(x, depth, f))
        }
    }
}

fn map_binders<T, U>(t: &Term<T>, f: &dyn Fn(bool, &T) -> U) -> Term<U> {
    match t {
        Term::Var(n) => Term::Var(Rc::new(f(false, n))),
        Term::Delay(t) => Term::Delay(Rc::new(map_binders(t, f))),
        Term::Force(t) => Term::Force(Rc::new(map_binders(t, f))),
        Term::Lambda { parameter_name, body } => Term::Lambda {
            parameter_name: Rc::new(f(true, parameter_name)),
            body: Rc::new(map_binders(body, f)),
        },
        Term::Apply { function, argument } => Term::Apply {
            function: Rc::new(map_binders(function, f)),
            argument: Rc::new(map_binders(argument, f)),
        },
        Term::Constant(c) => Term::Constant(c.clone()),
        Term::Error => Term::Error,
        Term::Builtin(b) => Term::Builtin(*b),
        Term::Constr { tag, fields } => Term::Constr { tag: *tag, fields: fields.iter().map(|x| map_binders(x, f)).collect() },
        Term::Case { constr, branches } => Term::Case {
            constr: Rc::new(map_binders(constr, f)),
            branches: branches.iter().map(|x| map_binders(x, f)).collect(),
        },
    }
}

/// every variable index i satisfies 1 <= i <= number of enclosing binders
fn index_closed<T>(t: &Term<T>, idx: &dyn Fn(&T) -> usize) -> bool {
    let mut ok = true;
    walk(t, 0, &mut |is_binder, depth, n| {
        if !is_binder && !(1..=depth).contains(&idx(n)) {
            ok = false
        }
    });
    ok
}

fn texts<T>(t: &Term<T>, text: &dyn Fn(&T) -> String) -> Vec<String> {
    let mut v = vec![];
    walk(t, 0, &mut |_, _, n| v.push(text(n)));
    v
}

fn size<T>(t: &Term<T>) -> usize {
    match t {
        Term::Var(_) | Term::Constant(_) | Term::Error | Term::Builtin(_) => 1,
        Term::Delay(t) | Term::Force(t) => 1 + size(t),
        Term::Lambda { body, .. } => 1 + size(body),
        Term::Apply { function, argument } => 1 + size(function) + size(argument),
        Term::Constr { fields, .. } => 1 + fields.iter().map(size).sum::<usize>(),
        Term::Case { constr, branches } => 1 + size(constr) + branches.iter().map(size).sum::<usize>(),
    }
}

// ------------------------------------------------------------------ generators
/// all terms with exactly n nodes, n = 1..=max (index 0 unused)
fn enumerate<T: Clone>(vars: &[T], binders: &[T], max: usize) -> Vec<Vec<Term<T>>> {
    let mut by: Vec<Vec<Term<T>>> = vec![vec![]; max + 1];
    for n in 1..=max {
        let mut out: Vec<Term<T>> = vec![];
        if n == 1 {
            for v in vars {
                out.push(Term::Var(Rc::new(v.clone())));
            }
            out.push(Term::Error);
            out.push(Term::Constr { tag: 0, fields: vec![] });
            out.push(Term::Constant(Rc::new(Constant::Unit)));
        } else {
            for t in &by[n - 1] {
                for b in binders {
                    out.push(Term::Lambda { parameter_name: Rc::new(b.clone()), body: Rc::new(t.clone()) });
                }
                out.push(Term::Delay(Rc::new(t.clone())));
                out.push(Term::Force(Rc::new(t.clone())));
                out.push(Term::Constr { tag: 1, fields: vec![t.clone()] });
                out.push(Term::Case { constr: Rc::new(t.clone()), branches: vec![] });
            }
            for i in 1..n - 1 {
                let j = n - 1 - i;
                for a in &by[i] {
                    for b in &by[j] {
                        out.push(Term::Apply { function: Rc::new(a.clone()), argument: Rc::new(b.clone()) });
                        out.push(Term::Constr { tag: 0, fields: vec![a.clone(), b.clone()] });
                        out.push(Term::Case { constr: Rc::new(a.clone()), branches: vec![b.clone()] });
                    }
                }
            }
            for i in 1..n - 1 {
                for j in 1..n - 1 - i {
                    let k = n - 1 - i - j;
                    if k == 0 {
                        continue;
                    }
                    for a in &by[i] {
                        for b in &by[j] {
                            for c in &by[k] {
                                out.push(Term::Case { constr: Rc::new(a.clone()), branches: vec![b.clone(), c.clone()] });
                            }
                        }
                    }
                }
            }
        }
        by[n] = out;
    }
    by
}

struct Gen<'a, T> {
    r: &'a mut Prng,
    /// a variable under `depth` binders; env = the binders in scope, innermost last
    var: Box<dyn FnMut(&mut Prng, &[T]) -> T + 'a>,
    binder: Box<dyn FnMut(&mut Prng) -> T + 'a>,
}

impl<'a, T: Clone> Gen<'a, T> {
    fn term(&mut self, size: usize, env: &mut Vec<T>) -> Term<T> {
        if size <= 1 {
            let k = self.r.below(100);
            return if k < 78 {
                Term::Var(Rc::new((self.var)(self.r, env)))
            } else if k < 83 {
                Term::Error
            } else if k < 90 {
                Term::Constant(Rc::new(match self.r.below(3) {
                    0 => Constant::Unit,
                    1 => Constant::Integer(self.r.range(-3, 300).into()),
                    _ => Constant::Bool(self.r.chance(1, 2)),
                }))
            } else if k < 95 {
                let all: Vec<DefaultFunction> = DefaultFunction::iter().collect();
                Term::Builtin(*self.r.pick(&all))
            } else {
                Term::Constr { tag: self.r.below(3), fields: vec![] }
            };
        }
        let k = self.r.below(100);
        let rest = size - 1;
        if k < 32 {
            let b = (self.binder)(self.r);
            env.push(b.clone());
            let body = self.term(rest, env);
            env.pop();
            Term::Lambda { parameter_name: Rc::new(b), body: Rc::new(body) }
        } else if k < 60 {
            let i = 1 + self.r.below(rest.max(2) - 1);
            let f = self.term(i, env);
            let a = self.term(rest.saturating_sub(i).max(1), env);
            Term::Apply { function: Rc::new(f), argument: Rc::new(a) }
        } else if k < 68 {
            Term::Delay(Rc::new(self.term(rest, env)))
        } else if k < 76 {
            Term::Force(Rc::new(self.term(rest, env)))
        } else if k < 88 {
            let n = self.r.below(4);
            let fields = self.parts(rest, n, env);
            Term::Constr { tag: self.r.below(3), fields }
        } else {
            let n = self.r.below(4);
            let mut parts = self.parts(rest, n + 1, env);
            let constr = parts.remove(0);
            Term::Case { constr: Rc::new(constr), branches: parts }
        }
    }
    fn parts(&mut self, total: usize, n: usize, env: &mut Vec<T>) -> Vec<Term<T>> {
        let mut out = vec![];
        let mut left = total;
        for i in 0..n {
            let remaining = n - i;
            let s = if remaining == 1 { left.max(1) } else { 1 + self.r.below((left / remaining).max(1)) };
            out.push(self.term(s, env));
            left = left.saturating_sub(s);
        }
        out
    }
}

// ------------------------------------------------------------------ wire reader (corpus, replays)
#[derive(Debug)]
enum Sx {
    A(String),
    L(Vec<Sx>),
}

fn parse_sx(s: &str) -> Option<Sx> {
    fn go(cs: &[char], mut i: usize) -> Option<(Sx, usize)> {
        while i < cs.len() && cs[i] == ' ' {
            i += 1;
        }
        if i >= cs.len() {
            return None;
        }
        if cs[i] == '(' {
            i += 1;
            let mut xs = vec![];
            loop {
                while i < cs.len() && cs[i] == ' ' {
                    i += 1;
                }
                if i >= cs.len() {
                    return None;
                }
                if cs[i] == ')' {
                    return Some((Sx::L(xs), i + 1));
                }
                let (x, j) = go(cs, i)?;
                xs.push(x);
                i = j;
            }
        }
        let st = i;
        while i < cs.len() && !matches!(cs[i], ' ' | '(' | ')') {
            i += 1;
        }
        Some((Sx::A(cs[st..i].iter().collect()), i))
    }
    let cs: Vec<char> = s.trim().chars().collect();
    let (x, i) = go(&cs, 0)?;
    if i == cs.len() {
        Some(x)
    } else {
        None
    }
}

trait FromAtoms: Sized {
    fn from_atoms(xs: &[Sx]) -> Option<Self>;
}
fn atom(x: &Sx) -> Option<&str> {
    match x {
        Sx::A(s) => Some(s),
        _ => None,
    }
}
fn unhex(s: &str) -> Option<String> {
    String::from_utf8(hex::decode(s.strip_prefix('#')?).ok()?).ok()
}
impl FromAtoms for Name {
    fn from_atoms(xs: &[Sx]) -> Option<Self> {
        if xs.len() != 2 {
            return None;
        }
        Some(Name { text: unhex(atom(&xs[0])?)?, unique: Unique::new(atom(&xs[1])?.parse().ok()?) })
    }
}
impl FromAtoms for NamedDeBruijn {
    fn from_atoms(xs: &[Sx]) -> Option<Self> {
        if xs.len() != 2 {
            return None;
        }
        Some(NamedDeBruijn { text: unhex(atom(&xs[0])?)?, index: DeBruijn::new(atom(&xs[1])?.parse().ok()?) })
    }
}
impl FromAtoms for DeBruijn {
    fn from_atoms(xs: &[Sx]) -> Option<Self> {
        if xs.len() != 1 {
            return None;
        }
        Some(DeBruijn::new(atom(&xs[0])?.parse().ok()?))
    }
}

fn term_of_sx<T: FromAtoms>(x: &Sx) -> Option<Term<T>> {
    match x {
        Sx::A(a) if a == "e" => Some(Term::Error),
        Sx::L(xs) if !xs.is_empty() => {
            let rest = &xs[1..];
            match atom(&xs[0])? {
                "v" => Some(Term::Var(Rc::new(T::from_atoms(rest)?))),
                "l" => {
                    let (body, b) = rest.split_last()?;
                    Some(Term::Lambda { parameter_name: Rc::new(T::from_atoms(b)?), body: Rc::new(term_of_sx(body)?) })
                }
                "a" if rest.len() == 2 => {
                    Some(Term::Apply { function: Rc::new(term_of_sx(&rest[0])?), argument: Rc::new(term_of_sx(&rest[1])?) })
                }
                "d" if rest.len() == 1 => Some(Term::Delay(Rc::new(term_of_sx(&rest[0])?))),
                "f" if rest.len() == 1 => Some(Term::Force(Rc::new(term_of_sx(&rest[0])?))),
                "b" if rest.len() == 1 => {
                    let n = atom(&rest[0])?;
                    DefaultFunction::iter().find(|b| format!("{:?}", b) == n).map(Term::Builtin)
                }
                "c" if rest.len() == 1 => match &rest[0] {
                    Sx::A(u) if u == "u" => Some(Term::Constant(Rc::new(Constant::Unit))),
                    Sx::L(c) if c.len() == 2 && atom(&c[0]) == Some("i") => {
                        Some(Term::Constant(Rc::new(Constant::Integer(atom(&c[1])?.parse::<i64>().ok()?.into()))))
                    }
                    Sx::L(c) if c.len() == 2 && atom(&c[0]) == Some("bo") => {
                        Some(Term::Constant(Rc::new(Constant::Bool(atom(&c[1])? == "1"))))
                    }
                    _ => None,
                },
                "k" => {
                    let tag = atom(rest.first()?)?.parse().ok()?;
                    Some(Term::Constr { tag, fields: rest[1..].iter().map(term_of_sx).collect::<Option<Vec<_>>>()? })
                }
                "s" => Some(Term::Case {
                    constr: Rc::new(term_of_sx(rest.first()?)?),
                    branches: rest[1..].iter().map(term_of_sx).collect::<Option<Vec<_>>>()?,
                }),
                _ => None,
            }
        }
        _ => None,
    }
}

fn term_of_wire<T: FromAtoms>(s: &str) -> Option<Term<T>> {
    term_of_sx(&parse_sx(s)?)
}

// ------------------------------------------------------------------ the check
struct Run {
    rep: Report,
    reqs: Vec<String>,
    real: Vec<String>,
    kinds: BTreeMap<String, u64>,
    eval: bool,
}

const PER_KIND: u64 = 2;

impl Run {
    fn ask(&mut self, op: &str, w: &str, real: String) {
        self.reqs.push(format!("db {} {}", op, w));
        self.real.push(real);
    }
    /// the real code violates the property; only the first few (smallest) inputs per kind are listed
    fn fail(&mut self, kind: &str, what: &str, w: &str, detail: serde_json::Value) {
        let c = self.kinds.entry(kind.to_string()).or_insert(0);
        *c += 1;
        if *c <= PER_KIND {
            self.rep.fail(&format!("c11:{}:{}", kind, w), what, json!({"form": kind.split(':').next(), "term": w}), detail);
        }
        self.rep.count(&format!("property-failure:{}", kind));
    }
    fn flush(&mut self) {
        if self.reqs.is_empty() {
            return;
        }
        // one driver process per chunk, chunks in parallel
        let chunk = (self.reqs.len() / 12).max(2000);
        let chunks: Vec<&[String]> = self.reqs.chunks(chunk).collect();
        let replies: Vec<Vec<String>> = std::thread::scope(|s| {
            let hs: Vec<_> = chunks.iter().map(|c| s.spawn(move || driver::run(c))).collect();
            hs.into_iter().map(|h| h.join().unwrap()).collect()
        });
        let model: Vec<String> = replies.into_iter().flatten().collect();
        self.rep.evaluations += self.reqs.len() as u64;
        for i in 0..self.reqs.len() {
            if i % 977 == 13 && self.reqs[i].len() > 40 && self.rep.samples.len() < 8 {
                self.rep.sample(json!({"request": self.reqs[i], "real": self.real[i], "model": model[i]}));
            }
            if model[i] != self.real[i] {
                let op = self.reqs[i].split(' ').nth(1).unwrap_or("?").to_string();
                let c = self.kinds.entry(format!("disagree:{}", op)).or_insert(0);
                *c += 1;
                if *c <= PER_KIND {
                    let (rq, rl, md) = (self.reqs[i].clone(), self.real[i].clone(), model[i].clone());
                    self.rep.disagree(&format!("c11:{}", rq), &rq, &rl, &md);
                }
                self.rep.count(&format!("disagreement:{}", op));
            }
        }
        self.reqs.clear();
        self.real.clear();
    }

    // -------------------------------------------------------------- Term<Name>
    fn name_term(&mut self, t: &Term<Name>) {
        let w = wire::term(t);
        let r_nd = call(|| Term::<NamedDeBruijn>::try_from(t.clone()));
        let r_d = call(|| Term::<DeBruijn>::try_from(t.clone()));
        let (s_nd, s_d) = (outcome(&r_nd), outcome(&r_d));
        self.ask("n2nd", &w, s_nd.clone());
        self.ask("n2d", &w, s_d.clone());
        // the Program-level entry points are the same conversion
        let prog = Program { version: (1, 1, 0), term: t.clone() };
        let p_d = outcome(&call(|| prog.clone().to_debruijn().map(|p| p.term)));
        let p_nd = outcome(&call(|| prog.clone().to_named_debruijn().map(|p| p.term)));
        if p_d != s_d || p_nd != s_nd {
            self.fail("name:entry-points", "Program::to_debruijn/to_named_debruijn differ from the Term conversions", &w,
                json!({"term_level": [s_d, s_nd], "program_level": [p_d, p_nd]}));
        }
        // open terms are rejected (with the first free name), closed ones accepted
        let free = first_free(t, &mut vec![]);
        let expect = expected_db(t, &|n: &Name| uq(n), &mut vec![]);
        self.rep.count(if free.is_some() { "name:open" } else { "name:closed" });
        match (&free, &r_d, &r_nd) {
            (Some(n), Ok(Err(DbErr::FreeUnique(m))), Ok(Err(DbErr::FreeUnique(m2)))) if m == n && m2 == n => {}
            (Some(n), _, _) => self.fail("name:open-not-rejected", "a term with a free variable is not rejected with FreeUnique(that variable)", &w,
                json!({"free": format!("{}_{}", n.text, uq(n)), "to_debruijn": s_d, "to_named_debruijn": s_nd})),
            (None, Ok(Ok(d)), Ok(Ok(nd))) => {
                let d = d.clone();
                let nd = nd.clone();
                // every variable refers to the binder an independent resolution finds
                let want = wire::term(expect.as_ref().unwrap());
                if wire::term(&d) != want {
                    self.fail("name:wrong-binder", "name->index resolves a variable to a different binder than scoping by unique prescribes", &w,
                        json!({"got": wire::term(&d), "expected": want}));
                }
                let proj = wire::term(&Term::<DeBruijn>::from(nd.clone()));
                let txt = texts(&nd, &|n: &NamedDeBruijn| n.text.clone());
                if proj != wire::term(&d) || txt != texts(t, &|n: &Name| n.text.clone()) {
                    self.fail("name:named-vs-plain", "named-de-Bruijn result is not the de Bruijn result plus the original texts", &w,
                        json!({"named": wire::term(&nd), "plain": wire::term(&d)}));
                }
                // there and back: alpha-equivalent, and the same index term again
                let back = call(|| Term::<Name>::try_from(d.clone()));
                match &back {
                    Ok(Ok(t2)) => {
                        let again = outcome(&call(|| Term::<DeBruijn>::try_from(t2.clone())));
                        if !alpha_eq(t, t2, &mut vec![], &mut vec![]) || again != s_d {
                            self.fail("name:roundtrip-not-alpha", "name -> de Bruijn -> name is not alpha-equivalent to the original", &w,
                                json!({"debruijn": s_d, "back": wire::term(t2), "again": again}));
                        }
                    }
                    other => self.fail("name:roundtrip-rejected", "the de Bruijn form of a closed term is rejected on the way back", &w,
                        json!({"debruijn": s_d, "back": outcome(other)})),
                }
                let back_nd = call(|| Term::<Name>::try_from(nd.clone()));
                match &back_nd {
                    Ok(Ok(t2)) => {
                        if !alpha_eq(t, t2, &mut vec![], &mut vec![]) || texts(t2, &|n: &Name| n.text.clone()) != txt {
                            self.fail("name:named-roundtrip-not-alpha", "name -> named de Bruijn -> name is not alpha-equivalent with the same texts", &w,
                                json!({"named": s_nd, "back": wire::term(t2)}));
                        }
                        if self.eval && size(t) <= 12 {
                            self.eval_same(&w, &nd, t2);
                        }
                    }
                    other => self.fail("name:named-roundtrip-rejected", "the named de Bruijn form of a closed term is rejected on the way back", &w,
                        json!({"named": s_nd, "back": outcome(other)})),
                }
            }
            (None, _, _) => self.fail("name:closed-rejected", "a closed term is rejected", &w, json!({"to_debruijn": s_d, "to_named_debruijn": s_nd})),
        }
        // CodeGenInterner: binding by (text, unique) becomes binding by unique
        let mut p = prog.clone();
        let r_i = call(|| {
            CodeGenInterner::new().program(&mut p);
            p.term
        });
        match &r_i {
            Ok(t2) => {
                self.ask("intern", &w, format!("ok {}", wire::term(t2)));
                let by_key = expected_db(t, &|n: &Name| (n.text.clone(), uq(n)), &mut vec![]);
                let got = call(|| Term::<DeBruijn>::try_from(t2.clone()));
                let same = match (&by_key, &got) {
                    (Some(e), Ok(Ok(d))) => wire::term(e) == wire::term(d),
                    (None, Ok(Err(DbErr::FreeUnique(_)))) => true,
                    _ => false,
                };
                if !same || texts(t2, &|n: &Name| n.text.clone()) != texts(t, &|n: &Name| n.text.clone()) {
                    self.fail("name:interner-rebinds", "CodeGenInterner changes which binder (by text+unique) a variable refers to", &w,
                        json!({"interned": wire::term(t2), "debruijn_after": outcome(&got),
                               "expected": by_key.as_ref().map(wire::term)}));
                }
            }
            Err(_) => {
                self.ask("intern", &w, "err panic".into());
                self.fail("name:interner-panics", "CodeGenInterner panics", &w, json!({}));
            }
        }
        // parser interner: binding by text becomes binding by unique
        let mut p = prog;
        let r_p = call(|| {
            ParserInterner::new().program(&mut p);
            p.term
        });
        match &r_p {
            Ok(t2) => {
                self.ask("pintern", &w, format!("ok {}", wire::term(t2)));
                let by_text = expected_db(t, &|n: &Name| n.text.clone(), &mut vec![]);
                let got = call(|| Term::<DeBruijn>::try_from(t2.clone()));
                let same = match (&by_text, &got) {
                    (Some(e), Ok(Ok(d))) => wire::term(e) == wire::term(d),
                    (None, Ok(Err(DbErr::FreeUnique(_)))) => true,
                    _ => false,
                };
                if !same {
                    self.fail("name:parser-interner-rebinds", "the parser's interner changes which binder (by text) a variable refers to", &w,
                        json!({"interned": wire::term(t2), "debruijn_after": outcome(&got)}));
                }
            }
            Err(_) => self.ask("pintern", &w, "err panic".into()),
        }
        if free.is_none() {
            self.rep.nontrivial.insert(w);
        }
    }

    /// evaluation result and cost are the same before and after a round trip through names
    fn eval_same(&mut self, w: &str, nd: &Term<NamedDeBruijn>, back: &Term<Name>) {
        let budget = ExBudget { mem: 200_000, cpu: 200_000_000 };
        let show = |p: Program<NamedDeBruijn>| {
            call(move || {
                let r = p.eval(budget);
                let res = match r.result() {
                    Ok(t) => format!("ok {}", wire::term(&Term::<DeBruijn>::from(t))),
                    Err(e) => format!("err {}", e.to_string().chars().take(60).collect::<String>()),
                };
                format!("{} cpu={} mem={}", res, r.cost().cpu, r.cost().mem)
            })
            .unwrap_or_else(|p| format!("panic {}", p.chars().take(60).collect::<String>()))
        };
        let a = show(Program { version: (1, 1, 0), term: nd.clone() });
        let nd2 = call(|| Term::<NamedDeBruijn>::try_from(back.clone()));
        let b = match nd2 {
            Ok(Ok(nd2)) => show(Program { version: (1, 1, 0), term: nd2 }),
            other => format!("conversion failed: {}", outcome(&other)),
        };
        self.rep.count("eval:compared");
        if a.starts_with("ok") {
            self.rep.count("eval:ok");
        }
        if a != b {
            self.fail("name:eval-differs", "evaluation differs before/after a round trip through names", w, json!({"before": a, "after": b}));
        }
    }

    // -------------------------------------------------------------- Term<DeBruijn>
    fn db_term(&mut self, d: &Term<DeBruijn>) {
        let w = wire::term(d);
        let r = call(|| Term::<Name>::try_from(d.clone()));
        let s = outcome(&r);
        self.ask("d2n", &w, s.clone());
        let by_ref = outcome(&call(|| Term::<Name>::try_from(d)));
        let prog = Program { version: (1, 1, 0), term: d.clone() };
        let p1 = outcome(&call(|| Program::<Name>::try_from(prog.clone()).map(|p| p.term)));
        let p2 = outcome(&call(|| Program::<Name>::try_from(&prog).map(|p| p.term)));
        if by_ref != s || p1 != s || p2 != s {
            self.fail("db:entry-points", "the four DeBruijn -> Name entry points differ", &w, json!({"results": [s, by_ref, p1, p2]}));
        }
        let r_nd = call(|| Term::<NamedDeBruijn>::from(d.clone()));
        match &r_nd {
            Ok(nd) => self.ask("d2nd", &w, format!("ok {}", wire::term(nd))),
            Err(_) => self.ask("d2nd", &w, "err panic".into()),
        }
        let closed = index_closed(d, &|i: &DeBruijn| i.inner());
        self.rep.count(if closed { "db:closed" } else { "db:open" });
        self.back_to_index("db", &w, closed, &r, &map_binders(d, &|is_b, i: &DeBruijn| if is_b { DeBruijn::new(0) } else { *i }));
        if closed {
            self.rep.nontrivial.insert(w);
        }
    }

    // -------------------------------------------------------------- Term<NamedDeBruijn>
    fn ndb_term(&mut self, nd: &Term<NamedDeBruijn>) {
        let w = wire::term(nd);
        let r = call(|| Term::<Name>::try_from(nd.clone()));
        let s = outcome(&r);
        self.ask("nd2n", &w, s.clone());
        let prog = Program { version: (1, 1, 0), term: nd.clone() };
        let p1 = outcome(&call(|| Program::<Name>::try_from(prog.clone()).map(|p| p.term)));
        if p1 != s {
            self.fail("ndb:entry-points", "Program and Term NamedDeBruijn -> Name differ", &w, json!({"results": [s, p1]}));
        }
        let plain = call(|| Term::<DeBruijn>::from(nd.clone()));
        match &plain {
            Ok(d) => self.ask("nd2d", &w, format!("ok {}", wire::term(d))),
            Err(_) => self.ask("nd2d", &w, "err panic".into()),
        }
        // FakeNamedDeBruijn is a wrapper: there and back is the identity (texts included)
        let fake = call(|| Term::<NamedDeBruijn>::from(Term::<FakeNamedDeBruijn>::from(nd.clone())));
        if fake.as_ref().map(wire::term).ok() != Some(w.clone()) {
            self.fail("ndb:fake-roundtrip", "NamedDeBruijn -> FakeNamedDeBruijn -> NamedDeBruijn is not the identity", &w, json!({}));
        }
        let closed = index_closed(nd, &|n: &NamedDeBruijn| n.index.inner());
        self.rep.count(if closed { "ndb:closed" } else { "ndb:open" });
        let zero = map_binders(nd, &|is_b, n: &NamedDeBruijn| if is_b { DeBruijn::new(0) } else { n.index });
        self.back_to_index("ndb", &w, closed, &r, &zero);
        if let Ok(Ok(t)) = &r {
            if texts(t, &|n: &Name| n.text.clone()) != texts(nd, &|n: &NamedDeBruijn| n.text.clone()) {
                self.fail("ndb:texts", "NamedDeBruijn -> Name changes a text", &w, json!({"got": wire::term(t)}));
            }
        }
        if closed {
            self.rep.nontrivial.insert(w);
        }
    }

    /// index -> name: rejected iff open; if accepted, converting back gives the same index term
    /// (binder indices, which carry no information, normalised to 0)
    fn back_to_index(&mut self, form: &str, w: &str, closed: bool, r: &Result<Result<Term<Name>, DbErr>, String>, zero: &Term<DeBruijn>) {
        match (closed, r) {
            (false, Ok(Err(DbErr::FreeIndex(_)))) => {}
            (false, other) => {
                let detail = json!({"result": outcome(other),
                    "back_to_index": match other { Ok(Ok(t)) => outcome(&call(|| Term::<DeBruijn>::try_from(t.clone()))), _ => "-".into() }});
                self.fail(&format!("{form}:open-not-rejected"),
                    "an index term with a free variable (index 0 or beyond the enclosing binders) is not rejected with FreeIndex but silently bound", w, detail)
            }
            (true, Ok(Ok(t))) => {
                let again = outcome(&call(|| Term::<DeBruijn>::try_from(t.clone())));
                let want = format!("ok {}", wire::term(zero));
                if again != want {
                    self.fail(&format!("{form}:roundtrip-rebinds"), "index -> name -> index does not give the original binding structure back", w,
                        json!({"named": wire::term(t), "back_to_index": again, "expected": want}));
                }
                // binders are numbered 0,1,2,… in pre-order
                if again != want {
                    return;
                }
                let mut k = 0isize;
                let mut ok = true;
                walk(t, 0, &mut |is_b, _, n: &Name| {
                    if is_b {
                        ok &= uq(n) == k;
                        k += 1;
                    }
                });
                if !ok {
                    self.fail(&format!("{form}:binder-numbering"), "binders are not named 0,1,2,… in pre-order", w, json!({"named": wire::term(t)}));
                }
            }
            (true, other) => self.fail(&format!("{form}:closed-rejected"), "a closed index term is rejected", w, json!({"result": outcome(other)})),
        }
    }
}

fn arg(name: &str, default: usize) -> usize {
    let a: Vec<String> = std::env::args().collect();
    a.iter().position(|x| x == name).and_then(|i| a.get(i + 1)).and_then(|v| v.parse().ok()).unwrap_or(default)
}

pub fn run(ctx: &Ctx) -> Report {
    let name_size = arg("--name-size", if ctx.thorough { 5 } else { 4 });
    let name3_size = arg("--name3-size", if ctx.thorough { 6 } else { 5 });
    let db_size = arg("--db-size", if ctx.thorough { 6 } else { 5 });
    let n_random = arg("--n", if ctx.thorough { 60000 } else { 6000 });
    let mut run = Run {
        rep: Report::new(
            "c11-debruijn",
            "every conversion entry point (TryFrom/From impls, Program::to_debruijn/to_named_debruijn, CodeGenInterner, parser Interner) \
             vs the Lean model on exhaustively enumerated and seeded random terms; property checks with an independent binder resolution. \
             Non-trivial = distinct closed (well-scoped) input term",
        ),
        reqs: vec![],
        real: vec![],
        kinds: BTreeMap::new(),
        eval: true,
    };
    run.rep.notes.push(format!("name-size={name_size} name3-size={name3_size} db-size={db_size} n={n_random} seed={}", ctx.seed));

    // 0. corpus of past failures first
    let root = std::env::var("VERIF_ROOT").unwrap_or_else(|_| "/verif".into());
    if let Ok(text) = std::fs::read_to_string(format!("{root}/corpus/C11/cases.txt")) {
        for line in text.lines() {
            let line = line.trim();
            if line.is_empty() || line.starts_with("//") {
                continue;
            }
            let (kind, w) = line.split_once(' ').unwrap_or((line, ""));
            let ok = match kind {
                "name" => term_of_wire::<Name>(w).map(|t| run.name_term(&t)).is_some(),
                "db" => term_of_wire::<DeBruijn>(w).map(|t| run.db_term(&t)).is_some(),
                "ndb" => term_of_wire::<NamedDeBruijn>(w).map(|t| run.ndb_term(&t)).is_some(),
                _ => false,
            };
            run.rep.count(if ok { "corpus" } else { "corpus-unreadable" });
        }
    }
    run.flush();

    // 1. exhaustive: 2 texts x 3 uniques
    let six: Vec<Name> = ["a", "b"].iter().flat_map(|t| (0..3).map(move |u| name(t, u))).collect();
    for (n, ts) in enumerate(&six, &six, name_size).iter().enumerate() {
        for t in ts {
            run.name_term(t);
        }
        run.rep.distribution.insert(format!("enum:name6:size{n}"), ts.len() as u64);
        run.flush();
    }
    // 2. exhaustive, deeper: duplicate unique with different texts, duplicate text with different uniques
    let three = vec![name("a", 0), name("b", 0), name("a", 1)];
    for (n, ts) in enumerate(&three, &three, name3_size).iter().enumerate() {
        if n <= name_size {
            continue; // contained in 1.
        }
        for t in ts {
            run.name_term(t);
        }
        run.rep.distribution.insert(format!("enum:name3:size{n}"), ts.len() as u64);
        run.flush();
    }
    // 3. exhaustive index terms: variables 0..3, binder index 0 or 1
    let vars: Vec<DeBruijn> = (0..4).map(DeBruijn::new).collect();
    let binders: Vec<DeBruijn> = (0..2).map(DeBruijn::new).collect();
    let mut r = Prng::new(ctx.seed);
    for (n, ts) in enumerate(&vars, &binders, db_size).iter().enumerate() {
        for d in ts {
            run.db_term(d);
            // the same shape with texts attached
            let mut rr = r.fork();
            let nd = assign_texts(&map_binders(d, &|_, i: &DeBruijn| i.inner()), &mut rr);
            run.ndb_term(&nd);
        }
        run.rep.distribution.insert(format!("enum:db:size{n}"), ts.len() as u64);
        run.flush();
    }

    // 4. seeded random, larger
    let texts_pool = ["a", "b", "c"];
    for i in 0..n_random {
        let size = 2 + r.below(if i % 10 == 0 { 60 } else { 24 });
        // names: small pool => shadowing, duplicate uniques with different texts; mostly bound
        {
            let mut rr = r.fork();
            let mut g = Gen {
                r: &mut rr,
                var: Box::new(|r: &mut Prng, env: &[Name]| {
                    if !env.is_empty() && r.chance(9, 10) {
                        let n = r.pick(env).clone();
                        if r.chance(1, 12) {
                            name(*r.pick(&texts_pool[..]), uq(&n)) // same unique, maybe another text
                        } else {
                            n
                        }
                    } else {
                        name(*r.pick(&texts_pool[..]), r.range(0, 3) as isize)
                    }
                }),
                binder: Box::new(|r: &mut Prng| name(*r.pick(&texts_pool[..]), if r.chance(1, 20) { r.range(-2, 1000) as isize } else { r.range(0, 3) as isize })),
            };
            let t = g.term(size, &mut vec![]);
            drop(g);
            run.rep.count(&format!("random:name:size{}", size / 10 * 10));
            run.name_term(&t);
        }
        // indices: mostly in range; 0, depth+1, large as the boundary cases
        {
            let mut rr = r.fork();
            let mut g = Gen {
                r: &mut rr,
                var: Box::new(|r: &mut Prng, env: &[usize]| {
                    let depth = env.len();
                    if depth > 0 && r.chance(19, 20) {
                        1 + r.below(depth)
                    } else {
                        *r.pick(&[0, depth + 1, depth + 2, 1 << 40, usize::MAX])
                    }
                }),
                binder: Box::new(|r: &mut Prng| if r.chance(9, 10) { 0 } else { r.below(4) }),
            };
            let shape = g.term(size, &mut vec![]);
            drop(g);
            run.rep.count(&format!("random:db:size{}", size / 10 * 10));
            let d = map_binders(&shape, &|_, i: &usize| DeBruijn::new(*i));
            run.db_term(&d);
            let nd = assign_texts(&shape, &mut rr);
            run.ndb_term(&nd);
        }
        if run.reqs.len() > 400_000 {
            run.flush();
        }
    }
    run.flush();
    let kinds = run.kinds.clone();
    for (k, c) in kinds {
        if c > PER_KIND {
            run.rep.notes.push(format!("{k}: {c} inputs in total, the first {PER_KIND} (smallest) are listed"));
        }
    }
    run.rep
}

fn assign_texts(shape: &Term<usize>, r: &mut Prng) -> Term<NamedDeBruijn> {
    let pool = ["a", "b", "i"];
    let cell = std::cell::RefCell::new(r);
    map_binders(shape, &|_, i: &usize| ndb(*cell.borrow_mut().pick(&pool[..]), *i))
}

