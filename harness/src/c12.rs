//! C12 — blueprint schemas vs `Parameter::validate` vs the compiled `expect`.
use crate::{aik, report::guarded, report::Report, sx, Ctx};
use aiken_lang::plutus_version::PlutusVersion;
use aiken_project::blueprint::validator::Validator;
use aiken_project::module::CheckedModules;
use pallas_primitives::alonzo::PlutusData;
use uplc::ast::{Constant, DeBruijn, Program, Term};
use uplc::machine::cost_model::ExBudget;

/// result of running `program d`: Some(true) = returned, Some(false) = script error
pub fn run_on(program: &Program<DeBruijn>, d: &PlutusData) -> Result<bool, String> {
    let p = program.apply_data(d.clone());
    let r = guarded(move || {
        let e = p.eval(ExBudget::max());
        match e.result() {
            Ok(Term::Error) => false,
            Ok(_) => true,
            Err(_) => false,
        }
    });
    r
}

/// probe: `verif-harness c12-probe FILE.ak [data…]` prints the blueprint of the
/// first validator and runs every `chk*` function on each data argument
pub fn probe(_ctx: &Ctx) -> Report {
    let args: Vec<String> = std::env::args().collect();
    let file = &args[2];
    let src = std::fs::read_to_string(file).unwrap();
    let mut proj = aik::Proj::new();
    let module = match proj.check(&src) {
        Ok(m) => m,
        Err(e) => {
            println!("REJECTED {e}");
            return Report::new("c12-probe", "");
        }
    };
    let modules = CheckedModules::singleton(module);
    {
        let mut generator = proj.new_generator(aiken_lang::ast::Tracing::silent());
        if let Some((m, def)) = modules.validators().next() {
            let r = guarded(std::panic::AssertUnwindSafe(|| {
                Validator::from_checked_module(&modules, &mut generator, m, def, &PlutusVersion::default())
            }));
            match r {
                Ok(Ok(vs)) => {
                    let v = &vs[0];
                    let mut j = serde_json::to_value(v).unwrap();
                    j["compiledCode"] = serde_json::Value::Null;
                    println!("{}", serde_json::to_string_pretty(&j).unwrap());
                    for a in &args[3..] {
                        let d = sx::data(a).expect("data");
                        for (i, p) in v.parameters.iter().enumerate() {
                            let r = guarded(std::panic::AssertUnwindSafe(|| {
                                p.validate(&v.definitions, &Constant::Data(d.clone())).is_ok()
                            }));
                            println!("validate param{} {} -> {:?}", i, a, r);
                        }
                    }
                }
                Ok(Err(e)) => println!("blueprint error: {:?}", e),
                Err(p) => println!("blueprint PANIC: {p}"),
            }
        }
    }
    let fns = aik::compile_functions(&proj, &modules, "chk");
    for (name, p) in &fns {
        for a in &args[3..] {
            let d = sx::data(a).expect("data");
            println!("{} {} -> {:?}", name, a, run_on(p, &d));
        }
    }
    Report::new("c12-probe", "")
}
