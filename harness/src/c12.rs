//! C12 — blueprint schemas vs `Parameter::validate` vs the compiled `expect`.
//!
//! `c12-corr`: for generated modules (type declarations + a validator whose parameters have
//! generated types + one `expect` function per parameter type):
//!   * `schemaraw`  real `Annotated::<Schema>::from_type` definitions      vs model `collect`
//!   * `schema`     real published definitions (`Validator::from_checked_module`) vs model `publish`
//!   * `validate`   real `Parameter::validate(defs, Constant::Data d)`      vs model `validate` (repaired)
//!   * `expect`     real compiled `fn(d: Data) { expect _: T = d  True }`   vs model `inhabits`
//! and, independently of the model, the property itself on the real code:
//! `validate` accepts  <=>  `expect` accepts, and `validate` never panics.
use crate::{aik, driver, prng::Prng, report::guarded, report::Report, sx, tygen, Ctx};
use aiken_project::blueprint::{
    definitions::Definitions,
    error::Error as BpError,
    schema::{Annotated, Schema},
    validator::tipo_or_annotation,
};
use serde_json::{json, Value};
use std::panic::AssertUnwindSafe;
use aiken_lang::plutus_version::PlutusVersion;
use aiken_project::blueprint::validator::Validator;
use aiken_project::module::CheckedModules;
use pallas_primitives::alonzo::PlutusData;
use uplc::ast::{Constant, DeBruijn, Program, Term};
use uplc::machine::cost_model::ExBudget;

/// result of running `program d`: Some(true) = returned, Some(false) = script error
pub fn run_on(program: &Program<DeBruijn>, d: &PlutusData) -> Result<bool, String> {
    let p = program.apply_data(d.clone());
    let r = guarded(move || {
        let e = p.eval(ExBudget::max());
        match e.result() {
            Ok(Term::Error) => false,
            Ok(_) => true,
            Err(_) => false,
        }
    });
    r
}

/// probe: `verif-harness c12-probe FILE.ak [data…]` prints the blueprint of the
/// first validator and runs every `chk*` function on each data argument
pub fn probe(_ctx: &Ctx) -> Report {
    let args: Vec<String> = std::env::args().collect();
    let file = &args[2];
    let src = std::fs::read_to_string(file).unwrap();
    let mut proj = aik::Proj::new();
    let module = match proj.check(&src) {
        Ok(m) => m,
        Err(e) => {
            println!("REJECTED {e}");
            return Report::new("c12-probe", "");
        }
    };
    let modules = CheckedModules::singleton(module);
    {
        let mut generator = proj.new_generator(aiken_lang::ast::Tracing::silent());
        if let Some((m, def)) = modules.validators().next() {
            let r = guarded(std::panic::AssertUnwindSafe(|| {
                Validator::from_checked_module(&modules, &mut generator, m, def, &PlutusVersion::default())
            }));
            match r {
                Ok(Ok(vs)) => {
                    let v = &vs[0];
                    let mut j = serde_json::to_value(v).unwrap();
                    j["compiledCode"] = serde_json::Value::Null;
                    println!("{}", serde_json::to_string_pretty(&j).unwrap());
                    for a in &args[3..] {
                        let d = sx::data(a).expect("data");
                        for (i, p) in v.parameters.iter().enumerate() {
                            let r = guarded(std::panic::AssertUnwindSafe(|| {
                                p.validate(&v.definitions, &Constant::Data(d.clone())).is_ok()
                            }));
                            println!("validate param{} {} -> {:?}", i, a, r);
                        }
                    }
                }
                Ok(Err(e)) => println!("blueprint error: {:?}", e),
                Err(p) => println!("blueprint PANIC: {p}"),
            }
        }
    }
    let fns = aik::compile_functions(&proj, &modules, "chk");
    for (name, p) in &fns {
        for a in &args[3..] {
            let d = sx::data(a).expect("data");
            println!("{} {} -> {:?}", name, a, run_on(p, &d));
        }
    }
    Report::new("c12-probe", "")
}

// ---------------------------------------------------------------------------- canonical schemas
fn canon_decl(v: &Value) -> String {
    if let Some(r) = v.get("$ref").and_then(|x| x.as_str()) {
        let k = r.strip_prefix("#/definitions/").unwrap_or(r).replace("~1", "/");
        format!("ref:{}", k)
    } else {
        format!("inl:{}", canon_schema(v))
    }
}

fn canon_items(v: &Value, one: &str, many: &str) -> String {
    match v {
        Value::Array(xs) => format!("{}({})", many, xs.iter().map(canon_decl).collect::<Vec<_>>().join(",")),
        other => format!("{}({})", one, canon_decl(other)),
    }
}

/// canonical text of one schema as serialised by the real code (titles/descriptions dropped)
pub fn canon_schema(v: &Value) -> String {
    match v.get("dataType").and_then(|x| x.as_str()) {
        Some("integer") => "integer".into(),
        Some("bytes") => "bytes".into(),
        Some("list") => canon_items(&v["items"], "list", "tuple"),
        Some("map") => format!("map({},{})", canon_decl(&v["keys"]), canon_decl(&v["values"])),
        Some("#unit") => "#unit".into(),
        Some("#boolean") => "#boolean".into(),
        Some("#integer") => "#integer".into(),
        Some("#bytes") => "#bytes".into(),
        Some("#string") => "#string".into(),
        Some("#pair") => format!("#pair({},{})", canon_decl(&v["left"]), canon_decl(&v["right"])),
        Some("#list") => canon_items(&v["items"], "#list", "#tuple"),
        Some(other) => format!("?{}", other),
        None => match v.get("anyOf") {
            Some(Value::Array(cs)) => {
                let parts: Vec<String> = cs
                    .iter()
                    .map(|c| {
                        let fs: Vec<String> =
                            c["fields"].as_array().map(|a| a.iter().map(canon_decl).collect()).unwrap_or_default();
                        format!("{}[{}]", c["index"], fs.join(","))
                    })
                    .collect();
                format!("anyOf({})", parts.join(","))
            }
            _ => "opaque".into(),
        },
    }
}

pub fn canon_definitions(defs: &Definitions<Annotated<Schema>>) -> String {
    let v = serde_json::to_value(defs).unwrap();
    let mut entries: Vec<String> = v
        .as_object()
        .map(|m| m.iter().map(|(k, s)| format!("{}={}", k, canon_schema(s))).collect())
        .unwrap_or_default();
    entries.sort();
    format!("ok {}", entries.join(";"))
}

fn sort_model_table(reply: &str) -> String {
    match reply.strip_prefix("ok ") {
        Some(rest) => {
            let mut es: Vec<&str> = rest.split(';').collect();
            es.sort();
            format!("ok {}", es.join(";"))
        }
        None => {
            if reply == "ok" {
                "ok ".into()
            } else {
                reply.to_string()
            }
        }
    }
}

pub fn fnv(s: &str) -> String {
    let mut h: u64 = 0xcbf29ce484222325;
    for b in s.bytes() {
        h ^= b as u64;
        h = h.wrapping_mul(0x100000001b3);
    }
    format!("{:016x}", h)
}

pub fn validate_outcome(r: &Result<Result<(), BpError>, String>) -> String {
    match r {
        Ok(Ok(())) => "ok".into(),
        Ok(Err(BpError::UnresolvedSchemaReference { .. })) => "unresolved".into(),
        Ok(Err(_)) => "mismatch".into(),
        Err(_) => "panic".into(),
    }
}

// ---------------------------------------------------------------------------- one module
pub struct Case {
    pub decls: tygen::Decls,
    pub params: Vec<tygen::Ty>,
}

impl Case {
    pub fn source(&self) -> String {
        let mut s = tygen::decls_aiken(&self.decls);
        let ps: Vec<String> = self.params.iter().enumerate().map(|(i, t)| format!("p{}: {}", i, t.aiken())).collect();
        s.push_str(&format!("validator v({}) {{\n  else(_) {{\n    True\n  }}\n}}\n\n", ps.join(", ")));
        for (i, t) in self.params.iter().enumerate() {
            s.push_str(&format!(
                "pub fn chk{}(d: Data) -> Bool {{\n  expect _: {} = d\n  True\n}}\n\n",
                i,
                t.aiken()
            ));
        }
        s
    }
    pub fn params_wire(&self) -> String {
        format!("({})", self.params.iter().map(|t| t.wire()).collect::<Vec<_>>().join(" "))
    }
}

pub fn gen_case(r: &mut Prng) -> Case {
    let nd = 1 + r.below(4);
    let decls = tygen::gen_decls(r, nd);
    let np = 1 + r.below(3);
    let mut params = vec![];
    for _ in 0..np {
        // bias towards the declared types
        let t = if r.chance(1, 2) {
            let n = r.below(decls.len());
            let ar = decls[n].arity;
            // a Pair as type argument now and then: `List<a>` fields become association lists
            tygen::Ty::Adt(
                n,
                (0..ar)
                    .map(|_| {
                        if r.chance(1, 4) {
                            tygen::Ty::Pair(Box::new(tygen::gen_ty(r, &decls, decls.len(), None, 0, 1)), Box::new(tygen::gen_ty(r, &decls, decls.len(), None, 0, 1)))
                        } else {
                            tygen::gen_ty(r, &decls, decls.len(), None, 0, 2)
                        }
                    })
                    .collect(),
            )
        } else {
            tygen::gen_ty(r, &decls, decls.len(), None, 0, 3)
        };
        params.push(t);
    }
    Case { decls, params }
}

fn data_for(r: &mut Prng, decls: &tygen::Decls, t: &tygen::Ty, n: usize) -> Vec<tygen::D> {
    let mut out = vec![];
    for i in 0..n {
        let base = tygen::gen_conforming(r, decls, t, 1 + (i % 3) as u32);
        match i % 4 {
            0 => out.push(base),
            1 | 2 => out.push(tygen::mutate(r, &base)),
            _ => {
                if r.chance(1, 2) {
                    let m = tygen::mutate(r, &base);
                    out.push(tygen::mutate(r, &m))
                } else {
                    out.push(tygen::gen_any(r, 2))
                }
            }
        }
    }
    out
}

pub fn run_case(case: &Case, r: &mut Prng, per_type: usize, rep: &mut Report, reqs: &mut Vec<String>, real: &mut Vec<String>, keys: &mut Vec<String>) {
    let src = case.source();
    let mut proj = aik::Proj::new();
    let module = match proj.check(&src) {
        Ok(m) => m,
        Err(e) => {
            rep.count("module-rejected-by-type-checker");
            if rep.notes.len() < 3 {
                rep.notes.push(format!("rejected module: {} :: {}", e.chars().take(300).collect::<String>(), src));
            }
            return;
        }
    };
    rep.count("module-accepted");
    let modules = CheckedModules::singleton(module);
    let dw = tygen::decls_wire(&case.decls);
    let pw = case.params_wire();
    let case_key = fnv(&src);
    let (m, def) = modules.validators().next().expect("validator");

    // 1. raw from_type
    let raw = guarded(AssertUnwindSafe(|| {
        let mut defs = Definitions::new();
        for p in def.params.iter() {
            if let Err(e) = Annotated::from_type((&modules).into(), tipo_or_annotation(m, p), &mut defs) {
                return Err(format!("{:?}", e.context()));
            }
        }
        Ok(defs)
    }));
    reqs.push(format!("schemaraw {} {}", dw, pw));
    keys.push(format!("c12:schemaraw:{}", case_key));
    real.push(match &raw {
        Ok(Ok(defs)) => canon_definitions(defs),
        Ok(Err(_)) => "error".into(),
        Err(p) => {
            rep.fail(&format!("c12:from_type-panic:{}", case_key), "Annotated::from_type panicked", json!({"source": src}), json!({"panic": p}));
            "panic".into()
        }
    });

    // 2. published blueprint
    let mut generator = proj.new_generator(aiken_lang::ast::Tracing::silent());
    let bp = guarded(AssertUnwindSafe(|| {
        Validator::from_checked_module(&modules, &mut generator, m, def, &PlutusVersion::default())
    }));
    drop(generator);
    let validator = match bp {
        Ok(Ok(mut vs)) => vs.remove(0),
        Ok(Err(e)) => {
            rep.count("blueprint-error");
            reqs.push(format!("schema {} {}", dw, pw));
            keys.push(format!("c12:schema:{}", case_key));
            real.push("error".into());
            let _ = e;
            return;
        }
        Err(p) => {
            rep.fail(&format!("c12:blueprint-panic:{}", case_key), "blueprint generation panicked", json!({"source": src}), json!({"panic": p}));
            return;
        }
    };
    reqs.push(format!("schema {} {}", dw, pw));
    keys.push(format!("c12:schema:{}", case_key));
    real.push(canon_definitions(&validator.definitions));
    rep.sample(json!({"source": src, "published": canon_definitions(&validator.definitions)}));

    // 3/4. validate and expect
    let fns = aik::compile_functions(&proj, &modules, "chk");
    for (i, t) in case.params.iter().enumerate() {
        let datas = data_for(r, &case.decls, t, per_type);
        for d in datas {
            let w = d.wire();
            let pd = d.plutus(r);
            let v = guarded(AssertUnwindSafe(|| validator.parameters[i].validate(&validator.definitions, &Constant::Data(pd.clone()))));
            let vo = validate_outcome(&v);
            let e = run_on(&fns[i].1, &pd);
            let eo = match &e {
                Ok(true) => "ok",
                Ok(false) => "mismatch",
                Err(_) => "panic",
            };
            rep.count(&format!("validate:{}", vo));
            rep.count(&format!("expect:{}", eo));
            rep.nontrivial.insert(fnv(&format!("{}|{}|{}", t.wire(), dw, w)));
            let input = json!({"source": src, "parameter": i, "type": t.aiken(), "data": w});
            if vo == "panic" {
                rep.fail(
                    &format!("c12:validate-panic:{}", fnv(&format!("{}{}{}", src, i, w))),
                    "Parameter::validate panics instead of returning a schema mismatch",
                    input.clone(),
                    json!({"panic": v.as_ref().err()}),
                );
            } else if (vo == "ok") != (eo == "ok") {
                rep.fail(
                    &format!("c12:schema-vs-expect:{}", fnv(&format!("{}{}{}", src, i, w))),
                    "the published schema and the compiled `expect` disagree on this data",
                    input.clone(),
                    json!({"validate": vo, "expect": eo}),
                );
            }
            reqs.push(format!("validate 1 {} {} {} {}", dw, pw, i, w));
            keys.push(format!("c12:validate:{}", fnv(&format!("{}{}{}", src, i, w))));
            real.push(vo);
            reqs.push(format!("inhabits {} {} {}", dw, t.wire(), w));
            keys.push(format!("c12:expect:{}", fnv(&format!("{}{}{}", src, i, w))));
            real.push(eo.to_string());
        }
    }
}

fn arg_usize(name: &str, default: usize) -> usize {
    let args: Vec<String> = std::env::args().collect();
    args.iter().position(|a| a == name).and_then(|i| args.get(i + 1)).and_then(|v| v.parse().ok()).unwrap_or(default)
}

/// hand-picked cases run first (minimised past failures)
pub fn corpus() -> Vec<Case> {
    use tygen::{Ctor, DataType, Ty};
    vec![
        // nested instantiation of one generic type
        Case {
            decls: vec![DataType { arity: 1, ctors: vec![Ctor { tag: None, fields: vec![Ty::Var(0), Ty::Var(0)], labelled: false }], record: false, as_list: false }],
            params: vec![Ty::Adt(0, vec![Ty::Adt(0, vec![Ty::Int])])],
        },
        // record-level @tag
        Case {
            decls: vec![DataType { arity: 0, ctors: vec![Ctor { tag: Some(5), fields: vec![Ty::Int], labelled: true }], record: true, as_list: false }],
            params: vec![Ty::Adt(0, vec![])],
        },
        // two constructors, different arities (fields length)
        Case {
            decls: vec![DataType {
                arity: 0,
                ctors: vec![
                    Ctor { tag: None, fields: vec![Ty::Int, Ty::Bytes], labelled: true },
                    Ctor { tag: None, fields: vec![], labelled: false },
                ],
                record: false,
                as_list: false,
            }],
            params: vec![Ty::Adt(0, vec![]), Ty::Option(Box::new(Ty::Int)), Ty::Bool],
        },
        // a list of pairs reached while its Pair is still being registered (recursive generic)
        Case {
            decls: vec![
                DataType {
                    arity: 2,
                    ctors: vec![
                        Ctor { tag: None, fields: vec![], labelled: false },
                        Ctor {
                            tag: None,
                            fields: vec![Ty::List(Box::new(Ty::Pair(Box::new(Ty::Adt(0, vec![Ty::Var(0), Ty::Var(1)])), Box::new(Ty::Var(1)))))],
                            labelled: false,
                        },
                        Ctor { tag: None, fields: vec![Ty::Var(0)], labelled: false },
                    ],
                    record: false,
                    as_list: false,
                },
                DataType {
                    arity: 0,
                    ctors: vec![
                        Ctor { tag: None, fields: vec![], labelled: false },
                        Ctor {
                            tag: None,
                            fields: vec![Ty::Pair(Box::new(Ty::Adt(0, vec![Ty::Void, Ty::Bool])), Box::new(Ty::Bool))],
                            labelled: false,
                        },
                    ],
                    record: false,
                    as_list: false,
                },
            ],
            params: vec![Ty::Adt(1, vec![])],
        },
        // a generic `List<a>` field instantiated at a Pair: the monomorphised field IS an association
        // list (Map in Data) although the declaration never mentions Pair (seeded change C12-3)
        Case {
            decls: vec![
                DataType { arity: 1, ctors: vec![Ctor { tag: None, fields: vec![Ty::Bytes, Ty::List(Box::new(Ty::Var(0)))], labelled: true }], record: true, as_list: false },
                DataType { arity: 2, ctors: vec![Ctor { tag: None, fields: vec![Ty::Option(Box::new(Ty::List(Box::new(Ty::Var(1))))), Ty::Var(0)], labelled: false }], record: false, as_list: false },
            ],
            params: vec![
                Ty::Adt(0, vec![Ty::Pair(Box::new(Ty::Int), Box::new(Ty::Bytes))]),
                Ty::Adt(1, vec![Ty::Int, Ty::Pair(Box::new(Ty::Bytes), Box::new(Ty::Adt(0, vec![Ty::Pair(Box::new(Ty::Int), Box::new(Ty::Int))])))]),
                Ty::Adt(0, vec![Ty::Int]),
            ],
        },
        // association lists with COMPOUND keys: tuple, enum, Option (what is checked inside a key)
        Case {
            decls: vec![DataType {
                arity: 0,
                ctors: vec![
                    Ctor { tag: None, fields: vec![], labelled: false },
                    Ctor { tag: None, fields: vec![], labelled: false },
                    Ctor { tag: None, fields: vec![Ty::Int], labelled: false },
                ],
                record: false,
                as_list: false,
            }],
            params: vec![
                Ty::List(Box::new(Ty::Pair(Box::new(Ty::Tuple(vec![Ty::Int, Ty::Int])), Box::new(Ty::Int)))),
                Ty::List(Box::new(Ty::Pair(Box::new(Ty::Adt(0, vec![])), Box::new(Ty::Int)))),
                Ty::List(Box::new(Ty::Pair(Box::new(Ty::Option(Box::new(Ty::Int))), Box::new(Ty::Bytes)))),
                Ty::List(Box::new(Ty::Pair(Box::new(Ty::List(Box::new(Ty::Bytes))), Box::new(Ty::Bool)))),
            ],
        },
        // @list record, maps, pairs, tuples
        Case {
            decls: vec![DataType { arity: 0, ctors: vec![Ctor { tag: None, fields: vec![Ty::Int, Ty::Bytes], labelled: true }], record: true, as_list: true }],
            params: vec![
                Ty::Adt(0, vec![]),
                Ty::List(Box::new(Ty::Pair(Box::new(Ty::Int), Box::new(Ty::Adt(0, vec![]))))),
                Ty::Tuple(vec![Ty::Pair(Box::new(Ty::Int), Box::new(Ty::Int)), Ty::Void]),
            ],
        },
    ]
}

pub fn corr(ctx: &Ctx) -> Report {
    let mut rep = Report::new(
        "c12-corr",
        "generated modules (1-4 type declarations with generics/recursion/@tag/@list, 1-3 validator parameters);          per parameter type: conforming data and near misses (tag +-1, field more/less, leaf kind, map<->list of pairs,          def/indef arrays). Non-trivial = distinct (declarations, type, data) triple",
    );
    let n = arg_usize("--n", if ctx.thorough { 1500 } else { 120 });
    let per_type = arg_usize("--per-type", if ctx.thorough { 40 } else { 24 });
    let mut r = Prng::new(ctx.seed);
    let mut reqs = vec![];
    let mut real = vec![];
    let mut keys = vec![];
    for c in corpus() {
        run_case(&c, &mut r, per_type, &mut rep, &mut reqs, &mut real, &mut keys);
    }
    for _ in 0..n {
        let c = gen_case(&mut r);
        run_case(&c, &mut r, per_type, &mut rep, &mut reqs, &mut real, &mut keys);
    }
    // constructor tags
    for ix in [0u64, 1, 6, 7, 8, 126, 127, 128, 129, 1000, 65535, 1 << 40] {
        reqs.push(format!("tag {}", ix));
        keys.push(format!("c12:tag:{}", ix));
        real.push(match uplc::ast::Data::constr(ix, vec![]) {
            PlutusData::Constr(c) => format!("{} {}", c.tag, c.any_constructor.map(|a| a.to_string()).unwrap_or("-".into())),
            _ => "?".into(),
        });
    }
    let model = driver::run(&reqs);
    rep.evaluations = reqs.len() as u64;
    for i in 0..reqs.len() {
        let m = if reqs[i].starts_with("schema") { sort_model_table(&model[i]) } else { model[i].clone() };
        if m != real[i] {
            rep.disagree(&keys[i], &reqs[i], &real[i], &m);
        }
    }
    rep
}
