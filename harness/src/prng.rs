//! splitmix64: every random choice of a run derives from one seed, so a
//! disagreement replays exactly.
#[derive(Clone)]
pub struct Prng(pub u64);

impl Prng {
    pub fn new(seed: u64) -> Self {
        Prng(seed ^ 0x9E37_79B9_7F4A_7C15)
    }
    pub fn next(&mut self) -> u64 {
        self.0 = self.0.wrapping_add(0x9E37_79B9_7F4A_7C15);
        let mut z = self.0;
        z = (z ^ (z >> 30)).wrapping_mul(0xBF58_476D_1CE4_E5B9);
        z = (z ^ (z >> 27)).wrapping_mul(0x94D0_49BB_1331_11EB);
        z ^ (z >> 31)
    }
    /// uniform in 0..n (n > 0)
    pub fn below(&mut self, n: usize) -> usize {
        (self.next() % (n as u64)) as usize
    }
    pub fn range(&mut self, lo: i64, hi: i64) -> i64 {
        lo + (self.next() % ((hi - lo + 1) as u64)) as i64
    }
    pub fn chance(&mut self, num: u64, den: u64) -> bool {
        self.next() % den < num
    }
    pub fn pick<'a, T>(&mut self, xs: &'a [T]) -> &'a T {
        &xs[self.below(xs.len())]
    }
    pub fn fork(&mut self) -> Prng {
        Prng(self.next())
    }
}
