//! C20 (program decoders only): arbitrary bytes given to `Program::from_flat`,
//! `from_cbor`, `from_hex` produce a value or an error — never a panic, a stack
//! overflow on modest input, or a loop.
//!
//! Every input is run through the real decoders inside `guarded` (catch_unwind) for the
//! three binder forms and compared (`ok <program>` / `err` / `panic`) with the Lean impl
//! model (`driver flat dec <form> <impl|fixed>`).  A panic of the real code is a property
//! failure whose replay is the byte string.
use crate::flatgen::*;
use crate::report::{guarded, Report};
use crate::wire::hex;
use crate::{driver, prng::Prng, Ctx};
use serde_json::json;
use std::panic::AssertUnwindSafe;
use uplc::ast::{DeBruijn, Name, NamedDeBruijn, Program};
use uplc::flat::Binder;

fn arg_n(default: usize, name: &str) -> usize {
    let args: Vec<String> = std::env::args().collect();
    args.iter().position(|a| a == name).and_then(|i| args.get(i + 1)).and_then(|v| v.parse().ok()).unwrap_or(default)
}

/// the replay that separates the unchanged tree from the repaired one: an 11-group word
pub const WORD_OVERFLOW: [u8; 12] = [0xff, 0xff, 0xff, 0xff, 0xff, 0xff, 0xff, 0xff, 0xff, 0xff, 0xff, 0x01];

/// does the linked uplc crate already carry the decoder guards?
pub fn tree_is_fixed() -> bool {
    guarded(|| Program::<DeBruijn>::from_flat(&WORD_OVERFLOW).is_ok()).is_ok()
}

thread_local! {
    /// message of the last panic caught by `real_flat` (names the panic site)
    static LAST_PANIC: std::cell::RefCell<String> = std::cell::RefCell::new(String::new());
}

fn real_flat<T>(bytes: &[u8]) -> String
where
    T: GenBinder + for<'b> Binder<'b>,
{
    match guarded(AssertUnwindSafe(|| Program::<T>::from_flat(bytes).map(|p| fprogram(&p)).map_err(|_| ()))) {
        Ok(Ok(w)) => format!("ok {w}"),
        Ok(Err(())) => "err".into(),
        Err(m) => {
            LAST_PANIC.with(|l| *l.borrow_mut() = m);
            "panic".into()
        }
    }
}

fn real_cbor<T>(bytes: &[u8]) -> String
where
    T: GenBinder + for<'b> Binder<'b>,
{
    let mut buf = vec![];
    match guarded(AssertUnwindSafe(|| Program::<T>::from_cbor(bytes, &mut buf).map(|p| fprogram(&p)).map_err(|_| ()))) {
        Ok(Ok(w)) => format!("ok {w}"),
        Ok(Err(())) => "err".into(),
        Err(_) => "panic".into(),
    }
}

fn real_hex<T>(s: &str) -> String
where
    T: GenBinder + for<'b> Binder<'b>,
{
    let (mut a, mut b) = (vec![], vec![]);
    match guarded(AssertUnwindSafe(|| Program::<T>::from_hex(s, &mut a, &mut b).map(|p| fprogram(&p)).map_err(|_| ()))) {
        Ok(Ok(w)) => format!("ok {w}"),
        Ok(Err(())) => "err".into(),
        Err(_) => "panic".into(),
    }
}

fn valid_bytes(r: &mut Prng) -> Vec<u8> {
    let cfg = TermCfg { wf_binders: true, bls: false };
    let mut kinds = vec![];
    loop {
        let b = match r.below(3) {
            0 => gen_program::<DeBruijn>(r, &cfg, &mut kinds).to_flat(),
            1 => gen_program::<NamedDeBruijn>(r, &cfg, &mut kinds).to_flat(),
            _ => gen_program::<Name>(r, &cfg, &mut kinds).to_flat(),
        };
        if let Ok(b) = b {
            return b;
        }
    }
}

/// one malformed (or not) stream and the name of the generator that made it
fn gen_input(r: &mut Prng) -> (&'static str, Vec<u8>) {
    match r.below(14) {
        0 => {
            let n = r.below(24);
            ("garbage", (0..n).map(|_| r.next() as u8).collect())
        }
        1 => {
            let b = valid_bytes(r);
            let k = r.below(b.len() + 1);
            ("truncated", b[..k].to_vec())
        }
        2 => {
            let mut b = valid_bytes(r);
            let k = r.below(b.len());
            b[k] ^= 1 << r.below(8);
            ("bit-flip", b)
        }
        3 => {
            let mut b = valid_bytes(r);
            let k = r.below(b.len());
            b[k] = *r.pick(&[0u8, 0xff, 0x80, 0x7f, 0x01]);
            ("byte-set", b)
        }
        4 => {
            let mut b = valid_bytes(r);
            let k = r.below(b.len() + 1);
            let ins: Vec<u8> = (0..1 + r.below(12)).map(|_| *r.pick(&[0xffu8, 0x80, 0x00, 0x81, 0xfe])).collect();
            b.splice(k..k, ins);
            ("insert", b)
        }
        5 => {
            let a = valid_bytes(r);
            let b = valid_bytes(r);
            let i = r.below(a.len() + 1);
            let j = r.below(b.len() + 1);
            let mut v = a[..i].to_vec();
            v.extend(&b[j..]);
            ("splice", v)
        }
        6 => {
            // over-long words at the places a word is read: version, var index, constr tag
            let k = 8 + r.below(6);
            let last = *r.pick(&[0u8, 1, 2, 0x7f]);
            let fill = *r.pick(&[0xffu8, 0x80, 0x81]);
            let mut w: Vec<u8> = vec![fill; k];
            w.push(last);
            let mut v = match r.below(4) {
                0 => vec![],
                1 => vec![1, 0],
                2 => vec![1, 0, 0, 0x00],       // (var …) — unaligned word follows the 4-bit tag
                _ => vec![1, 0, 0, 0x80],       // (constr …)
            };
            v.extend(w);
            v.extend([0x01, 0x01]);
            ("long-word", v)
        }
        7 => {
            // a constant whose payload is missing: ends right after the type tags
            let mut b = valid_bytes(r);
            b.truncate(3);
            let tail: &[&[u8]] = &[&[0x4a], &[0x4b, 0xd6, 0xf5, 0xa3], &[0x48], &[0x49], &[0x4b, 0xd4], &[0x4b, 0xde, 0xc8]];
            b.extend(*r.pick(tail));
            if r.chance(1, 2) {
                b.push(r.next() as u8);
            }
            ("const-cut", b)
        }
        8 => {
            // huge block length with too little data
            let mut v = vec![1, 0, 0, 0x48, 0x01 | 0x00];
            v[4] = 0x01;
            v.push(*r.pick(&[0xffu8, 0x80, 0x02]));
            let n = r.below(300);
            v.extend((0..n).map(|_| r.next() as u8));
            ("block-len", v)
        }
        9 => {
            let n = 1 + r.below(40);
            let x = *r.pick(&[0u8, 0xff, 0x80, 0x11, 0x33, 0x55, 0x88, 0x99, 0x22]);
            ("repeat", vec![x; n])
        }
        10 => {
            // nesting, moderately deep (the deep cases run in a child process)
            let d = r.below(2000);
            let x = *r.pick(&[0x11u8, 0x55, 0x15, 0x22, 0x33]);
            let mut v = vec![1, 0, 0];
            v.extend(vec![x; d]);
            v.extend([0x60, 0x01]);
            ("nested", v)
        }
        11 => {
            // invalid UTF-8 / CBOR inside otherwise valid framing
            let mut v = vec![1, 0, 0];
            let tag = *r.pick(&[0x49u8, 0x4a + 0x40]); // string | data  (0x49 = con string, 0x4a|.. approximates data)
            v.push(if tag == 0x49 { 0x49 } else { 0x4c });
            let n = r.below(6);
            let mut payload: Vec<u8> = (0..n).map(|_| r.next() as u8).collect();
            if r.chance(1, 2) {
                payload = vec![0xc3, 0x28];
            }
            v.push(if tag == 0x49 { 0x01 } else { 0x01 });
            v.push(payload.len() as u8);
            v.extend(&payload);
            v.extend([0x00, 0x01]);
            ("payload", v)
        }
        12 => ("valid", valid_bytes(r)),
        _ => {
            let mut b = valid_bytes(r);
            let n = 1 + r.below(5);
            b.extend((0..n).map(|_| r.next() as u8));
            ("trailing", b)
        }
    }
}

fn corpus() -> Vec<Vec<u8>> {
    let root = std::env::var("VERIF_ROOT").unwrap_or_else(|_| "/verif".into());
    let mut out = vec![];
    if let Ok(rd) = std::fs::read_dir(format!("{root}/corpus/C20")) {
        let mut files: Vec<_> = rd.filter_map(|e| e.ok()).map(|e| e.path()).filter(|p| p.extension().map(|x| x == "hex").unwrap_or(false)).collect();
        files.sort();
        for f in files {
            if let Ok(t) = std::fs::read_to_string(&f) {
                for line in t.lines() {
                    let l = line.split('#').next().unwrap().trim();
                    if let Ok(b) = hex::decode(l) {
                        if !l.is_empty() {
                            out.push(b);
                        }
                    }
                }
            }
        }
    }
    out
}

/// child-process entry: decode `depth` nested delays on the main thread; a stack
/// overflow kills this process, which the parent observes
pub fn deep_child(depth: usize, kind: &str) -> ! {
    let mut v = vec![1u8, 0, 0];
    let x = match kind {
        "delay" => 0x11u8,
        "force" => 0x55,
        "apply" => 0x33,
        _ => 0x22,
    };
    v.extend(vec![x; depth / 2]);
    v.extend([0x60, 0x01]);
    let r = Program::<DeBruijn>::from_flat(&v);
    // dropping a deep term recurses too: leak it, this check is about decoding
    let ok = r.is_ok();
    std::mem::forget(r);
    println!("{}", if ok { "ok" } else { "err" });
    std::process::exit(0)
}

fn deep(rep: &mut Report, thorough: bool) {
    let exe = match std::env::current_exe() {
        Ok(e) => e,
        Err(_) => return,
    };
    // "modest input": up to 8 KiB of nesting tags = depth 16384 (32768 is a recorded finding).
    let depths: &[usize] = if thorough { &[1000, 4096, 8192, 16384, 32768] } else { &[1000, 16384] };
    for kind in ["delay", "lambda", "apply"] {
        for &d in depths {
            rep.evaluations += 1;
            rep.count("deep-nesting");
            let out = std::process::Command::new(&exe).args(["c20-flat-deep", &d.to_string(), kind]).output();
            match out {
                Ok(o) if o.status.success() => {
                    rep.nontrivial.insert(format!("deep:{kind}:{d}"));
                }
                Ok(o) => rep.fail(
                    &format!("flat-deep:{kind}:{d}"),
                    "decoder dies (stack overflow) on a modest input",
                    json!({"bytes": format!("010000 ++ {}×{} ++ 6001", d / 2, kind), "depth": d, "input_bytes": d / 2 + 5}),
                    json!({"status": format!("{:?}", o.status), "stderr": String::from_utf8_lossy(&o.stderr).chars().take(300).collect::<String>()}),
                ),
                Err(e) => rep.notes.push(format!("could not spawn the deep-nesting child: {e}")),
            }
        }
    }
}

pub fn run(ctx: &Ctx) -> Report {
    let mut rep = Report::new(
        "c20-flat",
        "byte streams for Program::from_flat / from_cbor / from_hex in the three binder forms: corpus, valid encodings, \
         truncations at every length, bit flips, byte overwrites, insertions, splices, over-long words, constants cut after \
         their type tags, oversized block lengths, repeated bytes, nesting, invalid UTF-8/CBOR payloads, trailing bytes. \
         Non-trivial = distinct (form, bytes) with at least 4 bytes",
    );
    let n = arg_n(if ctx.thorough { 150000 } else { 12000 }, "--n");
    let fixed = tree_is_fixed();
    let mode = if fixed { "fixed" } else { "impl" };
    rep.notes.push(format!("linked uplc crate carries the decoder guards: {fixed}; impl model mode = {mode}"));
    let mut r = Prng::new(ctx.seed);

    let mut inputs: Vec<(&'static str, Vec<u8>)> = corpus().into_iter().map(|b| ("corpus", b)).collect();
    rep.notes.push(format!("corpus entries: {}", inputs.len()));
    // every truncation of a few valid programs (covers "bool at the end of the buffer")
    for _ in 0..(if ctx.thorough { 60 } else { 12 }) {
        let b = valid_bytes(&mut r);
        if b.len() <= 400 {
            for k in 0..b.len() {
                inputs.push(("truncated-all", b[..k].to_vec()));
            }
        }
    }
    for _ in 0..n {
        inputs.push(gen_input(&mut r));
    }

    let mut reqs = vec![];
    let mut real = vec![];
    let mut meta = vec![];
    let mut panic_seen: std::collections::BTreeMap<String, usize> = Default::default();
    for (kind, bytes) in &inputs {
        for form in ["db", "ndb", "name"] {
            // all three forms for small inputs, one (rotating) otherwise
            if bytes.len() > 64 && form != ["db", "ndb", "name"][bytes.len() % 3] {
                continue;
            }
            let out = match form {
                "db" => real_flat::<DeBruijn>(bytes),
                "ndb" => real_flat::<NamedDeBruijn>(bytes),
                _ => real_flat::<Name>(bytes),
            };
            rep.evaluations += 1;
            rep.count(&format!("gen:{kind}"));
            rep.count(&format!("outcome:{}", &out[..out.find(' ').unwrap_or(out.len())]));
            if bytes.len() >= 4 {
                rep.nontrivial.insert(format!("{form}:{}", hex(bytes)));
            }
            if out == "panic" {
                let h = hex(bytes);
                let msg = LAST_PANIC.with(|l| l.borrow().clone());
                let class = if msg.contains("shift left") { "word-shift-overflow" } else if msg.contains("index out of bounds") { "bool-index-out-of-bounds" } else { "other" };
                rep.count(&format!("panic-class:{class}"));
                let seen = panic_seen.entry(class.to_string()).or_insert(0usize);
                *seen += 1;
                // at most four replays per panic site (all are counted above)
                if *seen <= 4 || class == "other" {
                rep.fail(
                    &format!("flat-panic:{form}:{}", if h.len() > 80 { format!("{}…#{}", &h[..64], bytes.len()) } else { h.clone() }),
                    "Program::from_flat panics on this byte string",
                    json!({"form": form, "bytes": h, "generator": kind}),
                    json!({"panic": msg, "site": class, "observed_with": "catch_unwind, dev profile (overflow checks on)"}),
                );
                }
            }
            reqs.push(format!("flat dec {form} {mode} {}", hex(bytes)));
            real.push(out);
            meta.push((form, *kind, hex(bytes)));
        }
    }
    let model = driver::run(&reqs);
    for i in 0..reqs.len() {
        let m = if model[i].starts_with("ok ") { normalise_model_ok(&model[i]).unwrap_or_else(|| "err".into()) } else { model[i].clone() };
        if m != real[i] {
            let (form, kind, h) = &meta[i];
            rep.disagree(&format!("flat-dec:{form}:{}", if h.len() > 80 { format!("{}…", &h[..80]) } else { h.clone() }), &reqs[i], &real[i], &format!("{m}   [generator {kind}]"));
        }
    }
    for (k, b) in inputs.iter().take(4) {
        rep.sample(json!({"generator": k, "bytes": hex(b), "db": real_flat::<DeBruijn>(b)}));
    }

    // ---- cbor / hex wrappers on malformed input
    let mut creqs = vec![];
    let mut cin = vec![];
    for i in 0..(n / 4).max(200) {
        let (_, b) = gen_input(&mut r);
        let mut c = vec![];
        match r.below(6) {
            0 => c = b.clone(), // not wrapped at all
            1 => {
                // correct wrapper
                let mut e = pallas_codec::minicbor::Encoder::new(&mut c);
                e.bytes(&b).unwrap();
            }
            2 => {
                // length longer than the data
                c.push(0x58);
                c.push((b.len() as u8).wrapping_add(1 + r.below(5) as u8));
                c.extend(&b);
            }
            3 => {
                // indefinite byte string
                c.push(0x5f);
                c.push(0x40 | (b.len().min(23) as u8));
                c.extend(&b[..b.len().min(23)]);
                c.push(0xff);
            }
            4 => {
                // wider head than needed, trailing bytes
                c.push(*r.pick(&[0x59u8, 0x5a, 0x5b]));
                let k = match c[0] { 0x59 => 2, 0x5a => 4, _ => 8 };
                let len = (b.len() as u64).to_be_bytes();
                c.extend(&len[8 - k..]);
                c.extend(&b);
                c.extend([0xde, 0xad]);
            }
            _ => {
                // huge declared length
                c.push(0x5b);
                c.extend(u64::MAX.to_be_bytes());
                c.extend(&b);
            }
        }
        let out = real_cbor::<DeBruijn>(&c);
        rep.evaluations += 1;
        rep.count(&format!("cbor-outcome:{}", &out[..out.find(' ').unwrap_or(out.len())]));
        if out == "panic" {
            rep.count("panic-class:via-from_cbor");
        }
        if out == "panic" && rep.distribution["panic-class:via-from_cbor"] <= 3 {
            rep.fail(&format!("cbor-panic:{}", hex(&c)), "Program::from_cbor panics on this byte string", json!({"bytes": hex(&c)}), json!("panic"));
        }
        // hex: the same bytes as text, sometimes damaged
        let mut hx = hex::encode(&c);
        match i % 5 {
            0 => hx.push('0'),
            1 => hx = hx.to_uppercase(),
            2 => hx.insert(hx.len() / 2, 'g'),
            3 => hx = format!(" {hx}"),
            _ => {}
        }
        let hout = real_hex::<DeBruijn>(&hx);
        rep.evaluations += 1;
        if hout == "panic" {
            rep.count("panic-class:via-from_hex");
        }
        if hout == "panic" && rep.distribution["panic-class:via-from_hex"] <= 2 {
            rep.fail(&format!("hex-panic:{hx}"), "Program::from_hex panics on this string", json!({"text": hx}), json!("panic"));
        }
        let hex_ok = hx.len() % 2 == 0 && hx.chars().all(|ch| ch.is_ascii_hexdigit());
        let want = if hex_ok { out.clone() } else { "err".into() };
        if hout != want {
            rep.fail(&format!("hex-wrapper:{hx}"), "from_hex differs from from_cbor on the decoded text", json!({"text": hx}), json!({"from_hex": hout, "expected": want}));
        }
        creqs.push(format!("flat cbor-unwrap {}", hex(&c)));
        cin.push((c, out));
    }
    let unwrapped = driver::run(&creqs);
    let mut dreqs = vec![];
    let mut didx = vec![];
    for (i, u) in unwrapped.iter().enumerate() {
        if let Some(p) = u.strip_prefix("ok ") {
            dreqs.push(format!("flat dec db {mode} {p}"));
            didx.push(i);
        } else if cin[i].1 != "err" {
            rep.disagree(&format!("cbor-unwrap:{}", hex(&cin[i].0)), &creqs[i], &cin[i].1, u);
        }
    }
    let dm = driver::run(&dreqs);
    for (j, &i) in didx.iter().enumerate() {
        let m = if dm[j].starts_with("ok ") { normalise_model_ok(&dm[j]).unwrap_or_else(|| "err".into()) } else { dm[j].clone() };
        if m != cin[i].1 {
            rep.disagree(&format!("from_cbor:{}", hex(&cin[i].0)), &creqs[i], &cin[i].1, &m);
        }
    }

    deep(&mut rep, ctx.thorough);
    rep
}
