//! C13 — the formatter preserves programs.
//!   c13-prec        correspondence: operator trees, real formatter/parser vs Model/Prec.lean
//!   c13-roundtrip   property-level validation on the real code (generated modules + shipped .ak files)
//!   c20-aiken-text  C20 share: garbage/mutated Aiken text through lexer/parser/formatter (panic/hang = failure)
//!   c13-show FILE   debugging aid: prints format output and the span-erased AST of one file
use crate::{driver, prng::Prng, report::guarded, report::Report, Ctx};
use aiken_lang::{
    ast::{ModuleKind, UntypedDefinition},
    expr::UntypedExpr,
    parser,
};
use serde_json::json;

// ------------------------------------------------------------------ real code entry points

/// what `aiken fmt` does per file (crates/aiken-project/src/format.rs::format_file)
pub fn real_format(src: &str) -> Result<String, String> {
    let (module, extra) = parser::module(src, ModuleKind::Lib).map_err(|e| format!("{:?}", e.first().map(|x| x.kind.clone())))?;
    let mut out = String::new();
    aiken_lang::format::pretty(&mut out, module, extra, src);
    Ok(out)
}

/// Debug rendering with every source position erased: `Span`s print as `a..b`
/// (impl Debug for Span), `end_position: N`, and the byte offset in `Use::unqualified`.
/// Text inside string literals is left alone.
pub fn erase_positions(dbg: &str) -> String {
    let b: Vec<char> = dbg.chars().collect();
    let mut out = String::with_capacity(b.len());
    let mut i = 0;
    while i < b.len() {
        let c = b[i];
        if c == '"' {
            // copy a Rust debug string literal verbatim
            out.push(c);
            i += 1;
            while i < b.len() {
                out.push(b[i]);
                if b[i] == '\\' && i + 1 < b.len() {
                    out.push(b[i + 1]);
                    i += 2;
                    continue;
                }
                if b[i] == '"' {
                    i += 1;
                    break;
                }
                i += 1;
            }
            continue;
        }
        if c.is_ascii_digit() && (i == 0 || !(b[i - 1].is_alphanumeric() || b[i - 1] == '_')) {
            let mut j = i;
            while j < b.len() && b[j].is_ascii_digit() {
                j += 1;
            }
            if j + 1 < b.len() && b[j] == '.' && b[j + 1] == '.' {
                let mut k = j + 2;
                let k0 = k;
                while k < b.len() && b[k].is_ascii_digit() {
                    k += 1;
                }
                if k > k0 {
                    out.push('_');
                    i = k;
                    continue;
                }
            }
            let num: String = b[i..j].iter().collect();
            if out.ends_with("end_position: ") || out.ends_with("unqualified: (") {
                out.push('_');
            } else {
                out.push_str(&num);
            }
            i = j;
            continue;
        }
        out.push(c);
        i += 1;
    }
    out
}

/// `one_liner` of a pipeline records whether the first `|>` followed a newline: layout, not syntax
pub fn erase_layout(s: &str) -> String {
    s.replace("one_liner: true", "one_liner: _").replace("one_liner: false", "one_liner: _")
}

pub struct Parsed {
    pub ast: String,
    pub ast_layout_erased: String,
    pub comments: Vec<String>,
    pub doc_comments: Vec<String>,
    pub module_comments: Vec<String>,
}

pub fn real_parse(src: &str) -> Result<Parsed, String> {
    let (module, extra) = parser::module(src, ModuleKind::Lib)
        .map_err(|e| format!("{} parse errors, first: {:?}", e.len(), e.first().map(|x| x.kind.clone())))?;
    let ast = erase_positions(&format!("{:?}", module.definitions));
    let get = |spans: &Vec<aiken_lang::ast::Span>| -> Vec<String> {
        spans.iter().map(|s| src.get(s.start..s.end).unwrap_or("<bad-span>").trim_end().to_string()).collect()
    };
    Ok(Parsed {
        ast_layout_erased: erase_layout(&ast),
        ast,
        comments: get(&extra.comments),
        doc_comments: get(&extra.doc_comments),
        module_comments: get(&extra.module_comments),
    })
}

pub fn show(_ctx: &Ctx, extra: &[String]) -> Report {
    let mut rep = Report::new("c13-show", "debugging aid");
    let src = std::fs::read_to_string(&extra[0]).expect("file");
    match guarded(|| real_format(&src)) {
        Ok(Ok(out)) => {
            println!("--- formatted\n{out}--- ast");
            match real_parse(&src) {
                Ok(p) => println!("{}", p.ast),
                Err(e) => println!("ERR {e}"),
            }
            match real_parse(&out) {
                Ok(p) => println!("--- ast of output\n{}", p.ast),
                Err(e) => println!("--- output does not parse: {e}"),
            }
            match real_format(&out) {
                Ok(o2) if o2 == out => println!("--- idempotent"),
                Ok(o2) => println!("--- NOT idempotent:\n{o2}"),
                Err(e) => println!("--- second format: {e}"),
            }
        }
        Ok(Err(e)) => println!("parse error: {e}"),
        Err(p) => println!("PANIC {p}"),
    }
    rep.evaluations = 1;
    rep
}


// ------------------------------------------------------------------ helpers

/// run `f` over `inputs` on all cores, keeping order
pub fn par_map<I: Sync, O: Send>(inputs: &[I], f: impl Fn(&I) -> O + Sync) -> Vec<O> {
    let n = std::thread::available_parallelism().map(|x| x.get()).unwrap_or(4).min(16);
    let chunk = (inputs.len() + n - 1) / n.max(1);
    if chunk == 0 {
        return vec![];
    }
    let mut out: Vec<Option<O>> = (0..inputs.len()).map(|_| None).collect();
    std::thread::scope(|sc| {
        for (ins, outs) in inputs.chunks(chunk).zip(out.chunks_mut(chunk)) {
            let f = &f;
            std::thread::Builder::new()
                .stack_size(256 << 20)
                .spawn_scoped(sc, move || {
                    for (i, o) in ins.iter().zip(outs.iter_mut()) {
                        *o = Some(f(i));
                    }
                })
                .expect("spawn");
        }
    });
    out.into_iter().map(|x| x.unwrap()).collect()
}

fn extra_arg(extra: &[String], name: &str) -> Option<String> {
    extra.iter().position(|a| a == name).and_then(|i| extra.get(i + 1).cloned())
}

fn short_hash(s: &str) -> String {
    // FNV-1a, stable across runs
    let mut h: u64 = 0xcbf29ce484222325;
    for b in s.bytes() {
        h ^= b as u64;
        h = h.wrapping_mul(0x100000001b3);
    }
    format!("{:016x}", h)
}

/// outcome of the property on one source text (REAL code only)
pub enum Outcome {
    Unparseable(String),
    Ok { out: String, one_liner_flips: bool },
    Fail { what: &'static str, detail: serde_json::Value },
}

type Mod = (aiken_lang::ast::UntypedModule, aiken_lang::parser::extra::ModuleExtra);

fn parse_mod(src: &str) -> Result<Mod, String> {
    parser::module(src, ModuleKind::Lib)
        .map_err(|e| format!("{} parse errors, first: {:?}", e.len(), e.first().map(|x| x.kind.clone())))
}

fn parsed_of(m: &Mod, src: &str) -> Parsed {
    // imports are an unordered set: the formatter sorts `use` lines and the names inside `{..}`
    // on purpose, so they are compared as sorted sets; every other definition in order
    let mut uses: Vec<String> = vec![];
    let mut others: Vec<String> = vec![];
    for d in &m.0.definitions {
        match d {
            UntypedDefinition::Use(u) => {
                let mut names: Vec<String> = u.unqualified.1.iter().map(|x| format!("{}:{:?}", x.name, x.as_name)).collect();
                names.sort();
                uses.push(format!("Use {:?} as {:?} {{{}}}", u.module, u.as_name, names.join(",")));
            }
            other => others.push(format!("{:?}", other)),
        }
    }
    uses.sort();
    let ast = erase_positions(&format!("{}\n{}", uses.join("\n"), others.join("\n")));
    let get = |spans: &Vec<aiken_lang::ast::Span>| -> Vec<String> {
        spans.iter().map(|s| src.get(s.start..s.end).unwrap_or("<bad-span>").trim_end().to_string()).collect()
    };
    Parsed {
        ast_layout_erased: erase_layout(&ast),
        ast,
        comments: get(&m.1.comments),
        doc_comments: get(&m.1.doc_comments),
        module_comments: get(&m.1.module_comments),
    }
}

fn format_mod(m: Mod, src: &str) -> String {
    let mut out = String::new();
    aiken_lang::format::pretty(&mut out, m.0, m.1, src);
    out
}

/// The property itself: parse(src) ok ⇒ out = format(src); parse(out) ok and equal to the first
/// AST with positions erased; comments / doc comments / module comments retained in order;
/// format(out) == out.  (Each text is parsed once: `aiken fmt` parses and formats once per file.)
pub fn check_property(src: &str) -> Outcome {
    check_property_with(src, |_| ()).0
}

pub fn check_property_with<X>(src: &str, on_first: impl FnOnce(&aiken_lang::ast::UntypedModule) -> X) -> (Outcome, Option<X>) {
    let src_owned = src.to_string();
    let m1 = match guarded(move || parse_mod(&src_owned)) {
        Err(p) => return (Outcome::Fail { what: "parser panics", detail: json!({"panic": p}) }, None),
        Ok(Err(e)) => return (Outcome::Unparseable(e), None),
        Ok(Ok(m)) => m,
    };
    let x = Some(on_first(&m1.0));
    let first = parsed_of(&m1, src);
    let (s2, m1c) = (src.to_string(), std::panic::AssertUnwindSafe(m1));
    let out = match guarded(move || format_mod(m1c.0, &s2)) {
        Err(p) => return (Outcome::Fail { what: "formatter panics on a parseable module", detail: json!({"panic": p}) }, x),
        Ok(o) => o,
    };
    let o2 = out.clone();
    let m2 = match guarded(move || parse_mod(&o2)) {
        Err(p) => return (Outcome::Fail { what: "parser panics on formatter output", detail: json!({"panic": p, "formatted": out}) }, x),
        Ok(Err(e)) => return (Outcome::Fail { what: "formatted text no longer parses", detail: json!({"formatted": out, "error": e}) }, x),
        Ok(Ok(m)) => m,
    };
    let second = parsed_of(&m2, &out);
    if first.ast_layout_erased != second.ast_layout_erased {
        let (a, b) = first_difference(&first.ast_layout_erased, &second.ast_layout_erased);
        return (
            Outcome::Fail {
                what: "formatted text parses to a different syntax tree",
                detail: json!({"formatted": out, "ast_before_at_difference": a, "ast_after_at_difference": b}),
            },
            x,
        );
    }
    for (name, a, b) in [
        ("comments", &first.comments, &second.comments),
        ("doc comments", &first.doc_comments, &second.doc_comments),
        ("module comments", &first.module_comments, &second.module_comments),
    ] {
        if a != b {
            return (
                Outcome::Fail {
                    what: "comments not retained in order",
                    detail: json!({"which": name, "before": a, "after": b, "formatted": out}),
                },
                x,
            );
        }
    }
    let (o3, m2c) = (out.clone(), std::panic::AssertUnwindSafe(m2));
    match guarded(move || format_mod(m2c.0, &o3)) {
        Ok(o2) if o2 == out => {}
        Ok(o2) => {
            return (Outcome::Fail { what: "formatting is not idempotent", detail: json!({"formatted": out, "formatted_again": o2}) }, x)
        }
        Err(p) => return (Outcome::Fail { what: "formatter panics on its own output", detail: json!({"panic": p, "formatted": out}) }, x),
    }
    (Outcome::Ok { one_liner_flips: first.ast != second.ast, out }, x)
}

fn first_difference(a: &str, b: &str) -> (String, String) {
    let ac: Vec<char> = a.chars().collect();
    let bc: Vec<char> = b.chars().collect();
    let mut i = 0;
    while i < ac.len() && i < bc.len() && ac[i] == bc[i] {
        i += 1;
    }
    let lo = i.saturating_sub(120);
    let cut = |v: &Vec<char>| {
        format!(
            "{}  <<<DIFFERS HERE>>>  {}",
            v[lo.min(v.len())..i.min(v.len())].iter().collect::<String>(),
            v[i.min(v.len())..(i + 200).min(v.len())].iter().collect::<String>()
        )
    };
    (cut(&ac), cut(&bc))
}

// ------------------------------------------------------------------ c13-prec

#[derive(Clone, Debug, PartialEq)]
pub enum T {
    Atom(usize),
    Not(Box<T>),
    Neg(Box<T>),
    Bin(&'static str, Box<T>, Box<T>),
    Pipe(Box<T>, Box<T>),
}

/// (Rust variant name, symbol): the harness's own copy; a drift against the generated
/// tables shows up as a correspondence disagreement
pub const OPS: [(&str, &str); 13] = [
    ("And", "&&"), ("Or", "||"), ("Eq", "=="), ("NotEq", "!="), ("LtInt", "<"), ("LtEqInt", "<="),
    ("GtEqInt", ">="), ("GtInt", ">"), ("AddInt", "+"), ("SubInt", "-"), ("MultInt", "*"), ("DivInt", "/"), ("ModInt", "%"),
];
const NATOMS: usize = 6;

impl T {
    pub fn wire(&self) -> String {
        match self {
            T::Atom(n) => format!("a{n}"),
            T::Not(e) => format!("n({})", e.wire()),
            T::Neg(e) => format!("m({})", e.wire()),
            T::Bin(op, l, r) => format!("b{}({},{})", op, l.wire(), r.wire()),
            T::Pipe(l, r) => format!("p({},{})", l.wire(), r.wire()),
        }
    }
    pub fn size(&self) -> usize {
        match self {
            T::Atom(_) => 1,
            T::Not(e) | T::Neg(e) => 1 + e.size(),
            T::Bin(_, l, r) | T::Pipe(l, r) => 1 + l.size() + r.size(),
        }
    }
    /// fully parenthesised source text: determines the tree without any precedence rule
    pub fn full_paren(&self) -> String {
        match self {
            T::Atom(n) => format!("a{n}"),
            T::Not(e) => format!("!({})", e.full_paren()),
            T::Neg(e) => format!("-({})", e.full_paren()),
            T::Bin(op, l, r) => {
                let sym = OPS.iter().find(|o| o.0 == *op).unwrap().1;
                format!("({}) {} ({})", l.full_paren(), sym, r.full_paren())
            }
            // `(p) |> x` would be flattened by the parser: the fold step keeps a pipeline on the left bare
            T::Pipe(l, r) => match **l {
                T::Pipe(..) => format!("{} |> ({})", l.full_paren(), r.full_paren()),
                _ => format!("({}) |> ({})", l.full_paren(), r.full_paren()),
            },
        }
    }
}

pub fn gen_tree(rng: &mut Prng, budget: usize) -> T {
    if budget <= 1 || rng.chance(1, 7) {
        return T::Atom(rng.below(NATOMS));
    }
    match rng.below(20) {
        0..=1 => T::Not(Box::new(gen_tree(rng, budget - 1))),
        2..=3 => T::Neg(Box::new(gen_tree(rng, budget - 1))),
        4..=7 => {
            let k = 1 + rng.below(budget - 1);
            T::Pipe(Box::new(gen_tree(rng, k)), Box::new(gen_tree(rng, budget - 1 - k.min(budget - 1))))
        }
        _ => {
            let op = OPS[rng.below(OPS.len())].0;
            // boundary bias: skewed splits give long left / right spines
            let k = match rng.below(4) {
                0 => 1,
                1 => budget - 1,
                _ => 1 + rng.below(budget - 1),
            };
            T::Bin(op, Box::new(gen_tree(rng, k)), Box::new(gen_tree(rng, (budget - 1).saturating_sub(k).max(1))))
        }
    }
}

/// every tree with at most `n` nodes over one atom per leaf position (exhaustive tier)
pub fn all_trees(n: usize, ops: &[&'static str]) -> Vec<T> {
    let mut by_size: Vec<Vec<T>> = vec![vec![], vec![T::Atom(0)]];
    for s in 2..=n {
        let mut v = vec![];
        for e in &by_size[s - 1] {
            v.push(T::Not(Box::new(e.clone())));
            v.push(T::Neg(Box::new(e.clone())));
        }
        for ls in 1..s - 1 {
            let rs = s - 1 - ls;
            for l in &by_size[ls] {
                for r in &by_size[rs] {
                    for op in ops {
                        v.push(T::Bin(op, Box::new(l.clone()), Box::new(r.clone())));
                    }
                    v.push(T::Pipe(Box::new(l.clone()), Box::new(r.clone())));
                }
            }
        }
        by_size.push(v);
    }
    by_size.into_iter().flatten().collect()
}

fn module_of(expr_text: &str) -> String {
    format!("fn f(a0, a1, a2, a3, a4, a5) {{\n  {}\n}}\n", expr_text)
}

/// the body of the single function of a module, as a model tree; `None` when it contains a
/// form outside the model (calls, sequences, …)
fn tree_of_untyped(e: &UntypedExpr) -> Option<T> {
    match e {
        UntypedExpr::Var { name, .. } => {
            let n: usize = name.strip_prefix('a')?.parse().ok()?;
            Some(T::Atom(n))
        }
        UntypedExpr::UnOp { op, value, .. } => {
            let v = Box::new(tree_of_untyped(value)?);
            Some(match op {
                aiken_lang::ast::UnOp::Not => T::Not(v),
                aiken_lang::ast::UnOp::Negate => T::Neg(v),
            })
        }
        UntypedExpr::BinOp { name, left, right, .. } => {
            let nm = format!("{:?}", name);
            let op = OPS.iter().find(|o| o.0 == nm)?.0;
            Some(T::Bin(op, Box::new(tree_of_untyped(left)?), Box::new(tree_of_untyped(right)?)))
        }
        UntypedExpr::PipeLine { expressions, .. } => {
            let mut it = expressions.iter();
            let mut acc = tree_of_untyped(it.next()?)?;
            // a pipeline in first position or a single stage is not parser-normal
            if matches!(acc, T::Pipe(..)) || expressions.len() < 2 {
                return None;
            }
            for x in it {
                acc = T::Pipe(Box::new(acc), Box::new(tree_of_untyped(x)?));
            }
            Some(acc)
        }
        _ => None,
    }
}

fn real_tree(src: &str) -> Result<Option<T>, String> {
    let (module, _) = parser::module(src, ModuleKind::Lib).map_err(|e| format!("{} errors", e.len()))?;
    if module.definitions.len() != 1 {
        return Ok(None);
    }
    match &module.definitions[0] {
        UntypedDefinition::Fn(f) => Ok(tree_of_untyped(&f.body)),
        _ => Ok(None),
    }
}

/// own small lexer for the body of `fn f(..) { <expr> }` in formatter output
fn tokenize_body(out: &str) -> Option<Vec<String>> {
    let open = out.find('{')?;
    let close = out.rfind('}')?;
    let body: Vec<char> = out[open + 1..close].chars().collect();
    let mut toks = vec![];
    let mut i = 0;
    let two = ["|>", "||", "&&", "==", "!=", "<=", ">="];
    while i < body.len() {
        let c = body[i];
        if c.is_whitespace() {
            i += 1;
            continue;
        }
        if c.is_ascii_alphabetic() || c == '_' {
            let mut j = i;
            while j < body.len() && (body[j].is_ascii_alphanumeric() || body[j] == '_') {
                j += 1;
            }
            toks.push(body[i..j].iter().collect());
            i = j;
            continue;
        }
        if i + 1 < body.len() {
            let pair: String = body[i..i + 2].iter().collect();
            if two.contains(&pair.as_str()) {
                toks.push(pair);
                i += 2;
                continue;
            }
        }
        if "()!<>+-*/%".contains(c) {
            toks.push(c.to_string());
            i += 1;
            continue;
        }
        return None;
    }
    Some(toks)
}

const TOKEN_POOL: [&str; 22] = [
    "a0", "a1", "a2", "(", ")", "!", "-", "|>", "&&", "||", "==", "!=", "<", "<=", ">=", ">", "+", "-", "*", "/", "%", "a3",
];

pub fn prec(ctx: &Ctx, extra: &[String]) -> Report {
    let mut rep = Report::new(
        "c13-prec",
        "operator trees (binary operators, !, -, pipelines, atoms): real formatter tokens vs model print, real parser tree vs \
         model parse, on (a) every tree up to a node bound, (b) random trees biased to long spines, (c) partially \
         parenthesised and mutated token strings; plus the property itself on the real code for every tree. \
         Non-trivial = distinct tree / token string with at least one operator",
    );
    let n: usize = extra_arg(extra, "--n").and_then(|x| x.parse().ok()).unwrap_or(3000);
    let exh: usize = extra_arg(extra, "--exhaustive").and_then(|x| x.parse().ok()).unwrap_or(3);
    let mut rng = Prng::new(ctx.seed);
    let mut trees: Vec<T> = vec![];
    // corpus first
    for line in corpus_lines("prec-trees.txt") {
        if let Some(t) = parse_wire(&line) {
            trees.push(t);
        }
    }
    let all_ops: Vec<&'static str> = OPS.iter().map(|o| o.0).collect();
    // one representative per tower level keeps the exhaustive set small at the larger bound
    let rep_ops: Vec<&'static str> = vec!["Or", "And", "Eq", "LtInt", "AddInt", "SubInt", "MultInt"];
    trees.extend(all_trees(exh, &all_ops));
    if ctx.thorough {
        trees.extend(all_trees(exh + 1, &rep_ops).into_iter().filter(|t| t.size() == exh + 1));
    }
    rep.count_n("trees-exhaustive", trees.len() as u64);
    for _ in 0..n {
        let budget = match rng.below(10) {
            0..=5 => 2 + rng.below(8),
            6..=8 => 8 + rng.below(20),
            _ => 30 + rng.below(50),
        };
        trees.push(gen_tree(&mut rng, budget));
    }
    // (1) printer + parser on trees
    struct R {
        src: String,
        parsed: Result<Option<T>, String>,
        formatted: Result<Result<String, String>, String>,
        prop: Option<(&'static str, serde_json::Value)>,
    }
    let results = par_map(&trees, |t| {
        let src = module_of(&t.full_paren());
        let (outcome, tree) = check_property_with(&src, |m| match m.definitions.as_slice() {
            [UntypedDefinition::Fn(f)] => tree_of_untyped(&f.body),
            _ => None,
        });
        let (formatted, prop, parsed) = match outcome {
            Outcome::Ok { out, .. } => (Ok(Ok(out)), None, Ok(tree.flatten())),
            Outcome::Unparseable(e) => (
                Ok(Err(e.clone())),
                Some(("generated operator expression does not parse", json!({"error": e}))),
                Err("parse error".to_string()),
            ),
            Outcome::Fail { what, detail } => {
                let f = match detail.get("formatted").and_then(|x| x.as_str()) {
                    Some(o) => Ok(Ok(o.to_string())),
                    None => Err(detail.to_string()),
                };
                (f, Some((what, detail)), Ok(tree.flatten()))
            }
        };
        R { src, parsed, formatted, prop }
    });
    let mut reqs = vec![];
    let mut real = vec![];
    let mut keys = vec![];
    for (t, r) in trees.iter().zip(results.iter()) {
        rep.evaluations += 1;
        if t.size() > 1 {
            rep.nontrivial.insert(t.wire());
        }
        rep.count(&format!("tree-size-{}", match t.size() { 0..=3 => "1-3", 4..=9 => "4-9", 10..=29 => "10-29", _ => "30+" }));
        rep.count(match t { T::Atom(_) => "root-atom", T::Not(_) | T::Neg(_) => "root-unary", T::Bin(..) => "root-binop", T::Pipe(..) => "root-pipeline" });
        if let Some((what, detail)) = &r.prop {
            rep.fail(&format!("prec:{}", t.wire()), what, json!({"source": r.src, "tree": t.wire()}), detail.clone());
        }
        // the fully parenthesised text must give exactly the intended tree (real parser)
        match &r.parsed {
            Ok(Some(rt)) if rt == t => {}
            other => rep.disagree(
                &format!("prec:paren:{}", t.wire()),
                &format!("prec parse-of-fully-parenthesised {}", t.full_paren()),
                &format!("{:?}", other.as_ref().map(|o| o.as_ref().map(|x| x.wire()))),
                &format!("some {}", t.wire()),
            ),
        }
        // printer: real formatter's tokens vs model print
        let real_toks = match &r.formatted {
            Ok(Ok(out)) => {
                if out.lines().count() > 3 {
                    rep.count("formatted-multi-line");
                }
                match tokenize_body(out) {
                    Some(ts) => format!("ok {}", ts.join(" ")),
                    None => format!("untokenizable {out}"),
                }
            }
            Ok(Err(e)) => format!("parse-error {e}"),
            Err(p) => format!("panic {p}"),
        };
        reqs.push(format!("prec print {}", t.wire()));
        real.push(real_toks);
        keys.push(format!("prec:print:{}", t.wire()));
        // model round trip (a theorem; checked on the executable too)
        reqs.push(format!("prec roundtrip {}", t.wire()));
        real.push(format!("some {}", t.wire()));
        keys.push(format!("prec:roundtrip:{}", t.wire()));
        if rep.samples.len() < 4 && t.size() > 6 {
            rep.sample(json!({"tree": t.wire(), "formatted": r.formatted.as_ref().ok().and_then(|x| x.as_ref().ok())}));
        }
    }
    // (2) parser on token strings: partially parenthesised renderings and mutations
    let mut strings: Vec<Vec<String>> = vec![];
    for line in corpus_lines("prec-tokens.txt") {
        strings.push(line.split_whitespace().map(|s| s.to_string()).collect());
    }
    for t in trees.iter().filter(|t| t.size() <= 40) {
        if rng.chance(1, 2) {
            strings.push(random_paren(t, &mut rng));
        }
        if rng.chance(1, 4) {
            let mut ts = random_paren(t, &mut rng);
            for _ in 0..1 + rng.below(2) {
                if ts.is_empty() {
                    break;
                }
                let i = rng.below(ts.len());
                match rng.below(3) {
                    0 => {
                        ts.remove(i);
                    }
                    1 => ts.insert(i, TOKEN_POOL[rng.below(TOKEN_POOL.len())].to_string()),
                    _ => ts[i] = TOKEN_POOL[rng.below(TOKEN_POOL.len())].to_string(),
                }
            }
            strings.push(ts);
        }
    }
    for _ in 0..n / 4 {
        let len = 1 + rng.below(9);
        strings.push((0..len).map(|_| TOKEN_POOL[rng.below(TOKEN_POOL.len())].to_string()).collect());
    }
    let parsed = par_map(&strings, |ts| {
        let src = module_of(&ts.join(" "));
        guarded(|| real_tree(&src)).unwrap_or_else(|p| Err(format!("panic {p}")))
    });
    for (ts, r) in strings.iter().zip(parsed.iter()) {
        if ts.is_empty() {
            continue;
        }
        rep.evaluations += 1;
        let realr = match r {
            Ok(Some(t)) => {
                rep.count("token-string-parses");
                format!("some {}", t.wire())
            }
            // a parse error, or a tree with forms outside the model (call `a0 ( a1 )`, sequence `a0 a1`, …)
            Ok(None) => {
                rep.count("token-string-outside-model");
                "none".to_string()
            }
            Err(e) if e.starts_with("panic") => e.clone(),
            Err(_) => {
                rep.count("token-string-rejected");
                "none".to_string()
            }
        };
        if ts.len() > 1 {
            rep.nontrivial.insert(ts.join(" "));
        }
        reqs.push(format!("prec parse {}", ts.join(" ")));
        real.push(realr);
        keys.push(format!("prec:parse:{}", ts.join(" ")));
    }
    let model = driver::run(&reqs);
    for i in 0..reqs.len() {
        if model[i] != real[i] {
            rep.disagree(&keys[i], &reqs[i], &real[i], &model[i]);
        }
    }
    rep.notes.push(format!("{} driver requests; exhaustive bound {} nodes (all 13 operators){}", reqs.len(), exh,
        if ctx.thorough { format!(", {} nodes over one operator per level", exh + 1) } else { String::new() }));
    rep
}

/// render with parentheses where the model printer puts them, plus random extra ones
fn random_paren(t: &T, rng: &mut Prng) -> Vec<String> {
    fn go(t: &T, rng: &mut Prng, out: &mut Vec<String>, force: bool) {
        let wrap = force || rng.chance(1, 3);
        if wrap {
            out.push("(".into());
        }
        match t {
            T::Atom(n) => out.push(format!("a{n}")),
            T::Not(e) => {
                out.push("!".into());
                let force = !matches!(**e, T::Atom(_)) && rng.chance(2, 3);
                go(e, rng, out, force);
            }
            T::Neg(e) => {
                out.push("-".into());
                let force = !matches!(**e, T::Atom(_)) && rng.chance(2, 3);
                go(e, rng, out, force);
            }
            T::Bin(op, l, r) => {
                go(l, rng, out, false);
                out.push(OPS.iter().find(|o| o.0 == *op).unwrap().1.to_string());
                go(r, rng, out, false);
            }
            T::Pipe(l, r) => {
                go(l, rng, out, false);
                out.push("|>".into());
                go(r, rng, out, false);
            }
        }
        if wrap {
            out.push(")".into());
        }
    }
    let mut out = vec![];
    go(t, rng, &mut out, false);
    out
}

fn parse_wire(s: &str) -> Option<T> {
    fn go(c: &[char], i: &mut usize) -> Option<T> {
        match c.get(*i)? {
            'a' => {
                *i += 1;
                let st = *i;
                while *i < c.len() && c[*i].is_ascii_digit() {
                    *i += 1;
                }
                Some(T::Atom(c[st..*i].iter().collect::<String>().parse().ok()?))
            }
            'n' | 'm' => {
                let k = c[*i];
                *i += 2;
                let e = go(c, i)?;
                *i += 1;
                Some(if k == 'n' { T::Not(Box::new(e)) } else { T::Neg(Box::new(e)) })
            }
            'p' => {
                *i += 2;
                let l = go(c, i)?;
                *i += 1;
                let r = go(c, i)?;
                *i += 1;
                Some(T::Pipe(Box::new(l), Box::new(r)))
            }
            'b' => {
                *i += 1;
                let st = *i;
                while *i < c.len() && c[*i].is_ascii_alphabetic() {
                    *i += 1;
                }
                let nm: String = c[st..*i].iter().collect();
                let op = OPS.iter().find(|o| o.0 == nm)?.0;
                *i += 1;
                let l = go(c, i)?;
                *i += 1;
                let r = go(c, i)?;
                *i += 1;
                Some(T::Bin(op, Box::new(l), Box::new(r)))
            }
            _ => None,
        }
    }
    let c: Vec<char> = s.trim().chars().collect();
    let mut i = 0;
    let t = go(&c, &mut i)?;
    if i == c.len() { Some(t) } else { None }
}

fn verif_root() -> String {
    std::env::var("VERIF_ROOT").unwrap_or_else(|_| "/verif".into())
}

fn corpus_lines(file: &str) -> Vec<String> {
    std::fs::read_to_string(format!("{}/corpus/C13/{}", verif_root(), file))
        .map(|s| s.lines().filter(|l| !l.trim().is_empty() && !l.starts_with('#')).map(|l| l.to_string()).collect())
        .unwrap_or_default()
}

// ------------------------------------------------------------------ c13-roundtrip

fn walk_ak(dir: &std::path::Path, out: &mut Vec<std::path::PathBuf>) {
    if let Ok(rd) = std::fs::read_dir(dir) {
        let mut es: Vec<_> = rd.filter_map(|e| e.ok()).map(|e| e.path()).collect();
        es.sort();
        for p in es {
            if p.is_dir() {
                walk_ak(&p, out);
            } else if p.extension().map(|x| x == "ak").unwrap_or(false) {
                out.push(p);
            }
        }
    }
}

pub fn shipped_files() -> Vec<(String, String)> {
    let root = format!("{}/repo", verif_root());
    let mut paths = vec![];
    for d in ["examples", "benchmarks"] {
        walk_ak(std::path::Path::new(&format!("{root}/{d}")), &mut paths);
    }
    paths
        .into_iter()
        .filter_map(|p| {
            let rel = p.strip_prefix(&root).ok()?.to_string_lossy().to_string();
            let src = std::fs::read_to_string(&p).ok()?;
            Some((rel, src))
        })
        .collect()
}

fn corpus_files() -> Vec<(String, String)> {
    let mut paths = vec![];
    walk_ak(std::path::Path::new(&format!("{}/corpus/C13", verif_root())), &mut paths);
    paths
        .into_iter()
        .filter_map(|p| Some((p.file_name()?.to_string_lossy().to_string(), std::fs::read_to_string(&p).ok()?)))
        .collect()
}

fn slug(s: &str) -> String {
    s.chars().map(|c| if c.is_ascii_alphanumeric() { c.to_ascii_lowercase() } else { '-' }).collect()
}

pub fn roundtrip(ctx: &Ctx, extra: &[String]) -> Report {
    let mut rep = Report::new(
        "c13-roundtrip",
        "REAL code only: parse(src) ok => out = format(src); parse(out) ok and equal after erasing positions (and the \
         pipeline layout flag one_liner); comments, doc comments, module comments retained in order; format(out) == out. \
         Inputs: corpus/C13/*.ak, every .ak under /repo/examples and /repo/benchmarks, generated modules over the surface \
         grammar (c13gen.rs). Non-trivial = distinct parseable source text",
    );
    let n: usize = extra_arg(extra, "--n").and_then(|x| x.parse().ok()).unwrap_or(1500);
    let adversarial = extra.iter().any(|a| a == "--adversarial");
    if adversarial {
        rep.name = "c13-roundtrip-adversarial".into();
    }
    let mut rng = Prng::new(ctx.seed ^ 0xC13);
    // (label, source, parts for shrinking)
    let mut cases: Vec<(String, String, Vec<String>)> = vec![];
    if !adversarial {
        for (name, src) in corpus_files() {
            cases.push((format!("corpus:{name}"), src, vec![]));
        }
        let shipped = shipped_files();
        rep.count_n("shipped-files", shipped.len() as u64);
        for (rel, src) in shipped {
            cases.push((format!("file:{rel}"), src, vec![]));
        }
    }
    let mut feats: std::collections::BTreeMap<&'static str, u64> = Default::default();
    for i in 0..n {
        let mut r = rng.fork();
        let comments = i % 3 != 0;
        let mut g = crate::c13gen::G::new(&mut r, comments);
        g.adversarial = adversarial;
        let (ndefs, depth) = match i % 10 {
            0..=4 => (1, 1 + i % 3),
            5..=7 => (2, 3),
            8 => (4, 3),
            _ => (3, 4),
        };
        // keep the definitions apart so that a failing module can be cut down to one definition
        let mut parts = vec![];
        let head = g.module(0, 0);
        for d in 0..ndefs {
            parts.push(g.definition(d, depth));
        }
        let src = format!("{}\n{}", head, parts.join("\n"));
        for (k, v) in g.feats.iter() {
            *feats.entry(k).or_insert(0) += v;
        }
        let mut all = vec![head];
        all.extend(parts);
        cases.push((format!("gen:{i}"), src, all));
    }
    let outcomes = par_map(&cases, |(_, src, _)| check_property(src));
    // smallest failing source per signature
    let mut by_sig: std::collections::BTreeMap<String, (String, String, &'static str, serde_json::Value, u64)> = Default::default();
    for ((label, src, parts), oc) in cases.iter().zip(outcomes.into_iter()) {
        rep.evaluations += 1;
        let kind = label.split(':').next().unwrap_or("");
        match oc {
            Outcome::Unparseable(e) => {
                rep.count(&format!("{kind}-unparseable"));
                if kind != "gen" {
                    rep.notes.push(format!("{label} does not parse: {e}"));
                } else if rep.notes.len() < 6 {
                    rep.notes.push(format!("generated module rejected by the parser ({e}): {}", src.chars().take(160).collect::<String>()));
                }
            }
            Outcome::Ok { one_liner_flips, out } => {
                rep.count(&format!("{kind}-ok"));
                if one_liner_flips {
                    rep.count("one_liner-flag-changed");
                }
                if *src == out {
                    rep.count(&format!("{kind}-already-formatted"));
                }
                rep.nontrivial.insert(short_hash(src));
                if kind == "gen" && rep.samples.len() < 3 && src.len() > 200 {
                    rep.sample(json!({"source": src, "formatted": out}));
                }
            }
            Outcome::Fail { what, detail } => {
                rep.count(&format!("{kind}-FAIL"));
                rep.nontrivial.insert(short_hash(src));
                // cut a generated module down to the smallest single definition that fails the same way
                let mut best = src.clone();
                let mut best_detail = detail.clone();
                if parts.len() > 1 {
                    for p in &parts[1..] {
                        for cand in [p.clone(), format!("{}\n{}", parts[0], p)] {
                            if cand.len() < best.len() {
                                if let Outcome::Fail { what: w2, detail: d2 } = check_property(&cand) {
                                    if w2 == what {
                                        best = cand;
                                        best_detail = d2;
                                    }
                                }
                            }
                        }
                    }
                }
                if kind != "gen" {
                    rep.fail(&format!("roundtrip:{label}"), what, json!({"source": best, "origin": label}), best_detail);
                } else {
                    // group by error kind, or by the node kinds at the first AST difference
                    let word = |k: &str| -> String {
                        best_detail
                            .get(k)
                            .and_then(|x| x.as_str())
                            .and_then(|x| x.split("<<<DIFFERS HERE>>>  ").nth(1))
                            .map(|x| x.chars().take_while(|c| c.is_alphanumeric() || *c == '_').collect())
                            .unwrap_or_default()
                    };
                    let err_kind: String = best_detail
                        .get("error")
                        .and_then(|e| e.as_str())
                        .and_then(|e| e.split("first: Some(").nth(1))
                        .map(|e| e.split(|c: char| !(c.is_alphanumeric() || c == '(')).next().unwrap_or("").replace('(', "-"))
                        .unwrap_or_default();
                    let sig = if adversarial {
                        format!("adversarial:{}", slug(what))
                    } else {
                        format!("{}:{}:{}>{}", slug(what), err_kind, word("ast_before_at_difference"), word("ast_after_at_difference"))
                    };
                    let e = by_sig.entry(sig).or_insert((best.clone(), label.clone(), what, best_detail.clone(), 0));
                    e.4 += 1;
                    if best.len() < e.0.len() {
                        *e = (best, label.clone(), what, best_detail, e.4);
                    }
                }
            }
        }
    }
    for (_sig, (src, label, what, detail, count)) in by_sig {
        rep.fail(
            &format!("roundtrip:gen:{}", _sig),
            what,
            json!({"source": src, "origin": label, "generated_modules_failing_this_way": count}),
            detail,
        );
    }
    for (k, v) in feats {
        rep.count_n(&format!("feature:{k}"), v);
    }
    rep
}

// ------------------------------------------------------------------ c20-aiken-text

const GARBAGE: [&str; 40] = [
    "{", "}", "(", ")", "[", "]", "\"", "@\"", "#\"", "#[", "//", "///", "////", "\\", "|>", "||", "&&", "<-", "->", "..", "=", "-",
    "\n", "\r\n", "\t", "\0", "é", "0x", "1_", "1st", "99999999999999999999th", "when", "is", "fn", "let", "expect", "if", "else", "_", "?",
];

fn mutate(src: &str, rng: &mut Prng) -> String {
    let chars: Vec<char> = src.chars().collect();
    if chars.is_empty() {
        return GARBAGE[rng.below(GARBAGE.len())].to_string();
    }
    let mut c = chars.clone();
    for _ in 0..1 + rng.below(4) {
        if c.is_empty() {
            break;
        }
        let i = rng.below(c.len());
        match rng.below(7) {
            0 => c.truncate(i),
            1 => {
                c.remove(i);
            }
            2 => {
                let g: Vec<char> = GARBAGE[rng.below(GARBAGE.len())].chars().collect();
                for (k, ch) in g.into_iter().enumerate() {
                    c.insert(i + k, ch);
                }
            }
            3 => {
                let j = (i + 1 + rng.below(40)).min(c.len());
                let piece: Vec<char> = c[i..j].to_vec();
                let at = rng.below(c.len());
                for (k, ch) in piece.into_iter().enumerate() {
                    c.insert(at + k, ch);
                }
            }
            4 => {
                let j = (i + 1 + rng.below(60)).min(c.len());
                c.drain(i..j);
            }
            5 => c[i] = GARBAGE[rng.below(GARBAGE.len())].chars().next().unwrap(),
            _ => c = c[i..].to_vec(),
        }
    }
    c.into_iter().collect()
}

fn lex_parse_format(src: &str) -> &'static str {
    let _ = aiken_lang::parser::lexer::run(src);
    match parser::module(src, ModuleKind::Lib) {
        Ok((m, x)) => {
            let mut out = String::new();
            aiken_lang::format::pretty(&mut out, m, x, src);
            "formatted"
        }
        Err(_) => "rejected",
    }
}

/// child-process mode for inputs that may overflow the stack (a crash no `catch_unwind` can see)
pub fn c20_one(extra: &[String]) -> ! {
    let src = std::fs::read_to_string(&extra[0]).expect("file");
    let r = std::thread::Builder::new()
        .stack_size(8 << 20) // what a main thread of `aiken fmt` gets
        .spawn(move || guarded(|| lex_parse_format(&src)))
        .unwrap()
        .join();
    match r {
        Ok(Ok(_)) => std::process::exit(0),
        Ok(Err(_)) => std::process::exit(3),
        Err(_) => std::process::exit(3),
    }
}

pub fn c20_aiken_text(ctx: &Ctx, extra: &[String]) -> Report {
    let mut rep = Report::new(
        "c20-aiken-text",
        "EXPLORATION (fuzzing, no model): mutated / truncated / spliced / garbage Aiken source (size cap) through the real \
         lexer, parser and, when it parses, formatter. A panic, a crash of the child process or exceeding the per-case \
         time limit is a failure. Non-trivial = distinct input text",
    );
    let n: usize = extra_arg(extra, "--n").and_then(|x| x.parse().ok()).unwrap_or(3000);
    let cap: usize = extra_arg(extra, "--cap").and_then(|x| x.parse().ok()).unwrap_or(3000);
    let limit_s: u64 = extra_arg(extra, "--limit-s").and_then(|x| x.parse().ok()).unwrap_or(30);
    let mut rng = Prng::new(ctx.seed ^ 0xC20);
    let mut seeds: Vec<String> = shipped_files().into_iter().map(|(_, s)| s).collect();
    for (_, s) in corpus_files() {
        seeds.push(s);
    }
    for i in 0..60 {
        let mut r = rng.fork();
        let mut g = crate::c13gen::G::new(&mut r, true);
        seeds.push(g.module(1 + i % 3, 3));
    }
    let mut inputs: Vec<String> = vec![];
    for line in corpus_lines("c20-text.txt") {
        inputs.push(line.replace("\\n", "\n"));
    }
    for _ in 0..n {
        let base = &seeds[rng.below(seeds.len())];
        // a window of the file, cut at char boundaries
        let chars: Vec<char> = base.chars().collect();
        let start = if chars.len() > cap && rng.chance(1, 2) { rng.below(chars.len() - cap) } else { 0 };
        let window: String = chars[start..(start + cap).min(chars.len())].iter().collect();
        let m = match rng.below(10) {
            0 => (0..1 + rng.below(30)).map(|_| GARBAGE[rng.below(GARBAGE.len())]).collect::<Vec<_>>().join(if rng.chance(1, 2) { " " } else { "" }),
            1 => {
                let other = &seeds[rng.below(seeds.len())];
                let oc: Vec<char> = other.chars().collect();
                let k = rng.below(oc.len().max(1));
                let piece: String = oc[k..(k + 200).min(oc.len())].iter().collect();
                let at = rng.below(chars.len().min(cap).max(1));
                let w: Vec<char> = window.chars().collect();
                format!("{}{}{}", w[..at.min(w.len())].iter().collect::<String>(), piece, w[at.min(w.len())..].iter().collect::<String>())
            }
            _ => mutate(&window, &mut rng),
        };
        inputs.push(m);
    }
    // in-process with a watchdog per batch element
    let results = par_map(&inputs, |src| {
        let s2 = src.clone();
        let (tx, rx) = std::sync::mpsc::channel();
        let t0 = std::time::Instant::now();
        let _ = std::thread::Builder::new().stack_size(256 << 20).spawn(move || {
            let r = guarded(|| lex_parse_format(&s2));
            let _ = tx.send(r);
        });
        match rx.recv_timeout(std::time::Duration::from_secs(limit_s)) {
            Ok(Ok(k)) => (k.to_string(), t0.elapsed().as_millis()),
            Ok(Err(p)) => (format!("PANIC {p}"), t0.elapsed().as_millis()),
            Err(_) => ("TIMEOUT".to_string(), t0.elapsed().as_millis()),
        }
    });
    let mut slowest = 0u128;
    for (src, (r, ms)) in inputs.iter().zip(results.iter()) {
        rep.evaluations += 1;
        rep.nontrivial.insert(short_hash(src));
        slowest = slowest.max(*ms);
        if r.starts_with("PANIC") {
            rep.count("panic");
            rep.fail(&format!("c20-aiken-text:panic:{}", short_hash(src)), "lexer/parser/formatter panics on malformed source text", json!({"source": src}), json!({"outcome": r}));
        } else if r == "TIMEOUT" {
            rep.count("timeout");
            rep.fail(&format!("c20-aiken-text:hang:{}", short_hash(src)), "lexer/parser/formatter does not finish within the time limit", json!({"source": src, "limit_s": limit_s}), json!({}));
        } else {
            rep.count(r);
        }
    }
    // deep nesting / long chains in a child process (a stack overflow aborts the process)
    // (the deepest level is kept well inside what the 8 MiB main-thread stack takes for every shape:
    // around 5000 nested `when`s the outcome depends on the frame sizes of the build)
    let depths: &[usize] = if ctx.thorough { &[8, 12, 16, 20, 25, 50, 200, 1000, 2000] } else { &[12, 20, 50, 1000] };
    let exe = std::env::current_exe().expect("exe");
    let dir = std::env::temp_dir().join(format!("c20-{}", std::process::id()));
    let _ = std::fs::create_dir_all(&dir);
    let mut nested: Vec<(String, String)> = vec![];
    for &d in depths {
        nested.push((format!("parens-{d}"), format!("fn f() {{ {}1{} }}", "(".repeat(d), ")".repeat(d))));
        nested.push((format!("lists-{d}"), format!("fn f() {{ {}1{} }}", "[".repeat(d), "]".repeat(d))));
        nested.push((format!("blocks-{d}"), format!("fn f() {{ {}1{} }}", "{".repeat(d), "}".repeat(d))));
        nested.push((format!("unclosed-parens-{d}"), format!("fn f() {{ {}1 }}", "(".repeat(d))));
        nested.push((format!("negations-{d}"), format!("fn f() {{ {}1 }}", "-".repeat(d))));
        nested.push((format!("bangs-{d}"), format!("fn f() {{ {}a }}", "!".repeat(d))));
        nested.push((format!("sum-chain-{d}"), format!("fn f() {{ 1{} }}", " + 1".repeat(d))));
        nested.push((format!("and-chain-{d}"), format!("fn f() {{ a{} }}", " && a".repeat(d))));
        nested.push((format!("pipe-chain-{d}"), format!("fn f() {{ a{} }}", " |> f".repeat(d))));
        nested.push((format!("type-nesting-{d}"), format!("type T = {}Int{}", "List<".repeat(d), ">".repeat(d))));
        nested.push((format!("pattern-nesting-{d}"), format!("fn f(x) {{ when x is {{ {}y{} -> 1 }} }}", "Some(".repeat(d), ")".repeat(d))));
        nested.push((format!("when-nesting-{d}"), format!("fn f(x) {{ {}1{} }}", "when x is { _ -> ".repeat(d), " }".repeat(d))));
    }
    let run_child = |(name, src): &(String, String)| {
        let path = dir.join(format!("{name}.ak"));
        std::fs::write(&path, src).unwrap();
        let t0 = std::time::Instant::now();
        let mut child = std::process::Command::new(&exe)
            .arg("c20-one")
            .arg(&path)
            .stdout(std::process::Stdio::null())
            .stderr(std::process::Stdio::null())
            .spawn()
            .expect("spawn self");
        // the limit is on the child's CPU time (utime + stime from /proc): wall time depends on how
        // loaded the machine is, and a slow-but-finishing parse must not be reported as a hang
        let cpu_secs = |pid: u32| -> Option<u64> {
            let stat = std::fs::read_to_string(format!("/proc/{pid}/stat")).ok()?;
            let rest = stat.rsplit_once(')')?.1;
            let f: Vec<&str> = rest.split_whitespace().collect();
            let ticks: u64 = f.get(11)?.parse::<u64>().ok()? + f.get(12)?.parse::<u64>().ok()?;
            Some(ticks / 100)
        };
        loop {
            match child.try_wait() {
                Ok(Some(st)) => break Some(st),
                Ok(None) if cpu_secs(child.id()).unwrap_or(t0.elapsed().as_secs()) > limit_s || t0.elapsed().as_secs() > 40 * limit_s => {
                    let _ = child.kill();
                    let _ = child.wait();
                    break None;
                }
                Ok(None) => std::thread::sleep(std::time::Duration::from_millis(20)),
                Err(_) => break None,
            }
        }
    };
    let mut statuses = par_map(&nested, run_child);
    // a case that ran out of time while a dozen others were running is tried again ALONE (three at a
    // time): memory-management contention inflates even the CPU time of deep parses; only what exceeds
    // the limit again on a quiet machine is a hang
    let again: Vec<usize> = statuses.iter().enumerate().filter(|(_, st)| st.is_none()).map(|(i, _)| i).collect();
    for chunk in again.chunks(3) {
        let items: Vec<(String, String)> = chunk.iter().map(|i| nested[*i].clone()).collect();
        let res: Vec<_> = std::thread::scope(|sc| {
            let hs: Vec<_> = items.iter().map(|it| sc.spawn(|| run_child(it))).collect();
            hs.into_iter().map(|h| h.join().unwrap()).collect()
        });
        for (i, st) in chunk.iter().zip(res.into_iter()) {
            if st.is_some() {
                rep.count("nested-finished-when-run-alone");
            }
            statuses[*i] = st;
        }
    }
    for ((name, src), status) in nested.iter().zip(statuses.into_iter()) {
        rep.evaluations += 1;
        rep.nontrivial.insert(name.clone());
        let shape = json!({"shape": name, "source_bytes": src.len(), "source_head": src.chars().take(80).collect::<String>()});
        match status {
            Some(st) if st.code() == Some(0) => rep.count("nested-ok"),
            Some(st) if st.code() == Some(3) => {
                rep.count("nested-panic");
                rep.fail(&format!("c20-aiken-text:nested-panic:{name}"), "lexer/parser/formatter panics on deeply nested source", shape, json!({}));
            }
            Some(st) => {
                rep.count("nested-crash");
                rep.fail(
                    &format!("c20-aiken-text:nested-crash:{name}"),
                    "process crashes (stack overflow / abort) on deeply nested source with the default 8 MiB stack",
                    shape,
                    json!({"status": format!("{:?}", st)}),
                );
            }
            None => {
                rep.count("nested-timeout");
                rep.fail(&format!("c20-aiken-text:nested-hang:{name}"), "does not finish within the time limit on deeply nested source", shape, json!({"limit_s": limit_s}));
            }
        }
    }
    let _ = std::fs::remove_dir_all(&dir);
    rep.notes.push(format!("slowest in-process case {slowest} ms; size cap {cap} chars; per-case limit {limit_s} s"));
    rep
}
