//! C13 — the formatter preserves programs.
//!   c13-prec        correspondence: operator trees, real formatter/parser vs Model/Prec.lean
//!   c13-roundtrip   property-level validation on the real code (generated modules + shipped .ak files)
//!   c20-aiken-text  C20 share: garbage/mutated Aiken text through lexer/parser/formatter (panic/hang = failure)
//!   c13-show FILE   debugging aid: prints format output and the span-erased AST of one file
use crate::{driver, prng::Prng, report::guarded, report::Report, Ctx};
use aiken_lang::{
    ast::{ModuleKind, UntypedDefinition},
    expr::UntypedExpr,
    parser,
};
use serde_json::json;

// ------------------------------------------------------------------ real code entry points

/// what `aiken fmt` does per file (crates/aiken-project/src/format.rs::format_file)
pub fn real_format(src: &str) -> Result<String, String> {
    let (module, extra) = parser::module(src, ModuleKind::Lib).map_err(|e| format!("{:?}", e.first().map(|x| x.kind.clone())))?;
    let mut out = String::new();
    aiken_lang::format::pretty(&mut out, module, extra, src);
    Ok(out)
}

/// Debug rendering with every source position erased: `Span`s print as `a..b`
/// (impl Debug for Span), `end_position: N`, and the byte offset in `Use::unqualified`.
/// Text inside string literals is left alone.
pub fn erase_positions(dbg: &str) -> String {
    let b: Vec<char> = dbg.chars().collect();
    let mut out = String::with_capacity(b.len());
    let mut i = 0;
    while i < b.len() {
        let c = b[i];
        if c == '"' {
            // copy a Rust debug string literal verbatim
            out.push(c);
            i += 1;
            while i < b.len() {
                out.push(b[i]);
                if b[i] == '\\' && i + 1 < b.len() {
                    out.push(b[i + 1]);
                    i += 2;
                    continue;
                }
                if b[i] == '"' {
                    i += 1;
                    break;
                }
                i += 1;
            }
            continue;
        }
        if c.is_ascii_digit() && (i == 0 || !(b[i - 1].is_alphanumeric() || b[i - 1] == '_')) {
            let mut j = i;
            while j < b.len() && b[j].is_ascii_digit() {
                j += 1;
            }
            if j + 1 < b.len() && b[j] == '.' && b[j + 1] == '.' {
                let mut k = j + 2;
                let k0 = k;
                while k < b.len() && b[k].is_ascii_digit() {
                    k += 1;
                }
                if k > k0 {
                    out.push('_');
                    i = k;
                    continue;
                }
            }
            let num: String = b[i..j].iter().collect();
            if out.ends_with("end_position: ") || out.ends_with("unqualified: (") {
                out.push('_');
            } else {
                out.push_str(&num);
            }
            i = j;
            continue;
        }
        out.push(c);
        i += 1;
    }
    out
}

/// `one_liner` of a pipeline records whether the first `|>` followed a newline: layout, not syntax
pub fn erase_layout(s: &str) -> String {
    s.replace("one_liner: true", "one_liner: _").replace("one_liner: false", "one_liner: _")
}

pub struct Parsed {
    pub ast: String,
    pub ast_layout_erased: String,
    pub comments: Vec<String>,
    pub doc_comments: Vec<String>,
    pub module_comments: Vec<String>,
}

pub fn real_parse(src: &str) -> Result<Parsed, String> {
    let (module, extra) = parser::module(src, ModuleKind::Lib)
        .map_err(|e| format!("{} parse errors, first: {:?}", e.len(), e.first().map(|x| x.kind.clone())))?;
    let ast = erase_positions(&format!("{:?}", module.definitions));
    let get = |spans: &Vec<aiken_lang::ast::Span>| -> Vec<String> {
        spans.iter().map(|s| src.get(s.start..s.end).unwrap_or("<bad-span>").trim_end().to_string()).collect()
    };
    Ok(Parsed {
        ast_layout_erased: erase_layout(&ast),
        ast,
        comments: get(&extra.comments),
        doc_comments: get(&extra.doc_comments),
        module_comments: get(&extra.module_comments),
    })
}

pub fn show(_ctx: &Ctx, extra: &[String]) -> Report {
    let mut rep = Report::new("c13-show", "debugging aid");
    let src = std::fs::read_to_string(&extra[0]).expect("file");
    match guarded(|| real_format(&src)) {
        Ok(Ok(out)) => {
            println!("--- formatted\n{out}--- ast");
            match real_parse(&src) {
                Ok(p) => println!("{}", p.ast),
                Err(e) => println!("ERR {e}"),
            }
            match real_parse(&out) {
                Ok(p) => println!("--- ast of output\n{}", p.ast),
                Err(e) => println!("--- output does not parse: {e}"),
            }
            match real_format(&out) {
                Ok(o2) if o2 == out => println!("--- idempotent"),
                Ok(o2) => println!("--- NOT idempotent:\n{o2}"),
                Err(e) => println!("--- second format: {e}"),
            }
        }
        Ok(Err(e)) => println!("parse error: {e}"),
        Err(p) => println!("PANIC {p}"),
    }
    rep.evaluations = 1;
    rep
}

#[allow(unused)]
fn _unused(_: &UntypedDefinition, _: &UntypedExpr, _: &mut Prng) {
    let _ = driver::run(&[]);
    let _ = json!({});
}
