//! C06 — well-typed programs cannot go wrong.
//! Every `machine::Error` the real machine returns for a program the type checker accepted
//! (generated MiniAiken modules under all tracing settings, pre- and post-optimisation;
//! the hand-written corpus) is classified by the Lean classification of the GENERATED
//! `machine::Error` enum (`driver errclass`); a structural error is a counterexample.
use crate::c01;
use crate::c02;
use crate::comp;
use crate::report::Report;
use crate::{driver, Ctx};
use serde_json::json;
use std::collections::{BTreeMap, BTreeSet};

pub struct ErrObs {
    pub key: String,
    pub variant: String,
    pub which: &'static str,
    pub replay: serde_json::Value,
    pub text: String,
}

/// `errclass` for every variant seen (one driver call)
pub fn classify(variants: &BTreeSet<String>) -> BTreeMap<String, String> {
    let vs: Vec<String> = variants.iter().cloned().collect();
    if vs.is_empty() {
        return BTreeMap::new();
    }
    let reply = driver::run(&[format!("errclass {}", vs.join(" "))]);
    let classes: Vec<&str> = reply[0].split(' ').collect();
    vs.iter().cloned().zip(classes.iter().map(|c| c.to_string())).collect()
}

pub fn run(ctx: &Ctx) -> Report {
    let mut rep = Report::new(
        "c06",
        "distinct (module, function, tracing, arguments, program version) evaluations of type-checked programs whose outcome was classified (value, or error variant -> class)",
    );
    let n_modules: u64 = comp::arg_u64("--modules").unwrap_or(if ctx.thorough { 5000 } else { 400 });
    let n_args: usize = comp::arg_u64("--inputs").unwrap_or(if ctx.thorough { 24 } else { 10 }) as usize;
    let seed = ctx.seed.wrapping_add(606);
    let results = comp::par_map(n_modules, 14, |i| {
        let mut rep = Report::new("c06", "");
        let p = comp::prepare(seed, i, None);
        for (k, v) in &p.counts {
            *rep.distribution.entry(format!("construct:{}", k)).or_insert(0) += v;
        }
        let mut obs: Vec<ErrObs> = vec![];
        let (sname, tracing) = comp::settings()[((i / 3) % 9) as usize].clone();
        rep.count(&format!("tracing:{}", sname));
        let ch = match comp::check(&p.src, tracing) {
            Ok(c) => c,
            Err(e) => {
                rep.count(if e.starts_with("panic") { "module-checker-panic" } else { "module-rejected-by-checker" });
                return (rep, obs);
            }
        };
        rep.count("module-accepted");
        let mut r = crate::prng::Prng::new(seed ^ (i.wrapping_mul(0x9E37_79B9)) ^ 0x6161);
        for (fi, f) in p.module.fns.iter().enumerate() {
            if !f.entry || fi < crate::mini::N_PRELUDE {
                continue;
            }
            let base = format!("seed={}:module={}:fn={}:{}", seed, i, f.name, sname);
            let c = match comp::compile(&ch, &f.name, tracing) {
                Ok(c) => c,
                Err(_) => {
                    rep.count("compile-panic");
                    continue;
                }
            };
            rep.count("programs-compiled");
            let argsets = crate::mini::gen_args(&mut r, &p.module, fi, n_args);
            rep.count(&format!("inputs-per-program-{}", argsets.len()));
            for args in &argsets {
                let data = c01::value_args(&p.module, fi, args);
                let argw: Vec<String> = args.iter().map(|a| a.wire()).collect();
                for (which, prog) in [("post-optimisation", &c.post), ("pre-optimisation", &c.pre)] {
                    let o = comp::eval(prog, &data);
                    rep.evaluations += 1;
                    let key = format!("{}:args={}:{}", base, argw.join(","), which);
                    match &o {
                        comp::Out::Panic(m) => rep.fail(
                            &format!("{}:machine-panic", key),
                            "the machine panicked on a type-checked program",
                            json!({"source": p.src, "function": f.name, "arguments": argw, "tracing": sname, "program": which}),
                            json!({"panic": m}),
                        ),
                        comp::Out::Const(_) | comp::Out::Term(_) => {
                            rep.count("outcome:value");
                            rep.nontrivial.insert(key);
                        }
                        _ => {
                            let v = o.error_variant().unwrap().to_string();
                            rep.count(&format!("error:{}", v));
                            rep.nontrivial.insert(key.clone());
                            let text = match &o {
                                comp::Out::Fail(_, t) => t.clone(),
                                _ => String::new(),
                            };
                            obs.push(ErrObs {
                                key,
                                variant: v,
                                which,
                                // the source is regenerated from (seed, module) when a replay is needed
                                replay: json!({"seed": seed, "module": i, "function": f.name, "arguments": argw, "tracing": sname, "program": which}),
                                text,
                            });
                        }
                    }
                }
            }
        }
        (rep, obs)
    });
    let mut obs: Vec<ErrObs> = vec![];
    for (r, o) in results {
        comp::merge(&mut rep, r);
        obs.extend(o);
    }
    rep.count(&format!("generated-modules-{}", n_modules));

    // hand-written corpus (partial builtins at every boundary, typed-list builtins)
    let mut files = vec![];
    corpus_files(&mut files);
    for f in &files {
        let src = std::fs::read_to_string(f).unwrap_or_default();
        let label = format!("corpus/{}", f.file_stem().unwrap().to_string_lossy());
        for s in [comp::settings()[0].clone(), comp::settings()[2].clone()] {
            corpus_module(&mut rep, &mut obs, &label, &src, s);
        }
    }

    // the unification matrix: what the checker accepts in every unification context × type pair
    let (mrep, mobs) = crate::c06_matrix::run(ctx);
    comp::merge(&mut rep, mrep);
    obs.extend(mobs);

    let variants: BTreeSet<String> = obs.iter().map(|o| o.variant.clone()).collect();
    let classes = classify(&variants);
    for (v, c) in &classes {
        rep.notes.push(format!("{} -> {}", v, c));
    }
    let mut matrix_groups: BTreeMap<String, u32> = BTreeMap::new();
    for o in &obs {
        let class = classes.get(&o.variant).map(|s| s.as_str()).unwrap_or("unknown-variant");
        rep.count(&format!("class:{}", class));
        match class {
            "requested" | "budget" => {}
            "structural" => {
                // the pre-optimisation program of a typed-list builtin call is a known finding of C02;
                // for C06 only what the compiler RETURNS counts
                if o.which == "pre-optimisation" && o.variant == "TypeMismatch" && o.text.contains("Data)") {
                    rep.count("structural-in-pre-optimisation-typed-list (C02 finding)");
                    continue;
                }
                // the matrix reports at most three witnesses per unification context
                if o.key.starts_with("matrix/") {
                    let group: String = o.key.split('/').take(2).collect::<Vec<_>>().join("/");
                    let n = matrix_groups.entry(group).or_insert(0u32);
                    *n += 1;
                    if *n > 3 {
                        rep.count("matrix:structural-witnesses-not-listed");
                        continue;
                    }
                }
                let mut replay = o.replay.clone();
                if let (Some(sd), Some(m)) = (replay["seed"].as_u64(), replay["module"].as_u64()) {
                    replay["source"] = json!(comp::prepare(sd, m, None).src);
                }
                rep.fail(
                    &format!("{}:structural-error:{}", o.key, o.variant),
                    "a type-checked program fails with a structural machine error",
                    replay,
                    json!({"error": o.variant, "text": o.text, "class": class}),
                )
            }
            _ => rep.disagree(&format!("{}:unclassified:{}", o.key, o.variant), &o.variant, "a machine::Error variant", class),
        }
    }
    rep
}

fn corpus_files(out: &mut Vec<std::path::PathBuf>) {
    for d in ["corpus/C02", "corpus/C06"] {
        if let Ok(rd) = std::fs::read_dir(format!("{}/{}", c02::root(), d)) {
            let mut v: Vec<_> = rd.filter_map(|e| e.ok()).map(|e| e.path()).filter(|p| p.extension().map(|e| e == "ak").unwrap_or(false)).collect();
            v.sort();
            out.extend(v);
        }
    }
}

fn corpus_module(rep: &mut Report, obs: &mut Vec<ErrObs>, label: &str, src: &str, tracing: (&'static str, aiken_lang::ast::Tracing)) {
    use aiken_lang::ast::Definition;
    let ch = match comp::check(src, tracing.1) {
        Ok(c) => c,
        Err(_) => {
            rep.count("corpus-module-not-accepted");
            return;
        }
    };
    let names: Vec<String> = ch
        .module
        .ast
        .definitions()
        .filter_map(|d| match d {
            Definition::Fn(f) if f.arguments.is_empty() => Some(f.name.clone()),
            _ => None,
        })
        .collect();
    for name in names {
        let (post, pre) = comp::compile_keep_pre(&ch, &name, tracing.1);
        let mut progs = vec![];
        if let Ok(p) = post {
            progs.push(("post-optimisation", p));
        }
        if let Some(raw) = pre {
            progs.push(("pre-optimisation", comp::evaluable_pre(&raw)));
        }
        for (which, prog) in progs {
            let o = comp::eval(&prog, &[]);
            rep.evaluations += 1;
            let key = format!("{}:{}:{}:{}", label, name, tracing.0, which);
            rep.nontrivial.insert(key.clone());
            if let Some(v) = o.error_variant() {
                rep.count(&format!("error:{}", v));
                let text = match &o {
                    comp::Out::Fail(_, t) => t.clone(),
                    _ => String::new(),
                };
                obs.push(ErrObs { key, variant: v.to_string(), which, replay: json!({"source": src, "function": name, "tracing": tracing.0, "program": which}), text });
            } else {
                rep.count("outcome:value");
            }
        }
    }
}
