//! C14 — trace settings never change what a program decides.
//! Every generated module is type-checked and compiled under all 9 (level, scope) settings;
//! each entry function is run on the same arguments under all of them and the outcome
//! (value or abort; traces and cost are allowed to differ) is compared.  The Lean source
//! semantics (`driver mini`, three modes) is run next to it on a share of the programs.
use crate::c01;
use crate::comp::{self, Out};
use crate::report::Report;
use crate::{driver, Ctx};
use serde_json::json;

/// the known finding (by design): `tipo/expr.rs::infer_trace` drops the label expression under
/// `TraceLevel::Silent` (and the trace arguments under `Compact`), so a label that fails makes
/// the builds differ.  Keys of such cases end with this suffix.
pub const KNOWN_SUFFIX: &str = "failing-trace-label-decides";
/// key of the known finding `split_body_lambda` as seen by C14 (see known_findings.jsonl)
pub const AFTERWARDS_KEY: &str = "c14:optimiser-afterwards-moves-failing-argument-under-lambda";

pub fn run(ctx: &Ctx) -> Report {
    let mut rep = Report::new(
        "c14",
        "distinct (module, function, arguments) evaluated under all 9 tracing settings with the same outcome",
    );
    let n_modules: u64 = comp::arg_u64("--modules").unwrap_or(if ctx.thorough { 1200 } else { 100 });
    let n_args: usize = comp::arg_u64("--inputs").unwrap_or(if ctx.thorough { 12 } else { 6 }) as usize;
    let seed = ctx.seed.wrapping_add(1414);
    let settings = comp::settings();
    let results = comp::par_map(n_modules, 14, |i| {
        let mut rep = Report::new("c14", "");
        // 3 of 4 modules have total labels (the hypothesis of `trace_erasure_partial`)
        let p = comp::prepare(seed, i, None);
        for (k, v) in &p.counts {
            *rep.distribution.entry(format!("construct:{}", k)).or_insert(0) += v;
        }
        rep.count(if p.labels_total { "module-labels-total" } else { "module-labels-may-fail" });
        let mut reqs: Vec<(String, String, Vec<String>)> = vec![]; // (key, request, real outcomes per call) for the model comparison
        let mut checked = vec![];
        for (sname, tracing) in &settings {
            match comp::check(&p.src, *tracing) {
                Ok(c) => checked.push(c),
                Err(e) => {
                    rep.count(if e.starts_with("panic") { "module-checker-panic" } else { "module-rejected-by-checker" });
                    let _ = sname;
                    return (rep, reqs);
                }
            }
        }
        rep.count("module-accepted-under-9-settings");
        let mut r = crate::prng::Prng::new(seed ^ (i.wrapping_mul(0x9E37_79B9)) ^ 0x1414);
        for (fi, f) in p.module.fns.iter().enumerate() {
            if !f.entry || fi < crate::mini::N_PRELUDE {
                continue;
            }
            let base = format!("seed={}:module={}:fn={}", seed, i, f.name);
            let mut progs = vec![];
            let mut broken = false;
            for (k, (sname, tracing)) in settings.iter().enumerate() {
                match comp::compile(&checked[k], &f.name, *tracing) {
                    Ok(c) => progs.push(c),
                    Err(msg) => {
                        rep.count("compile-panic");
                        rep.fail(
                            &format!("{}:{}:compile-panic", base, sname),
                            "the compiler crashed under one tracing setting",
                            json!({"source": p.src, "function": f.name, "tracing": sname}),
                            json!({"panic": msg}),
                        );
                        broken = true;
                        break;
                    }
                }
            }
            if broken {
                continue;
            }
            rep.count("functions-compiled-under-9-settings");
            let argsets = crate::mini::gen_args(&mut r, &p.module, fi, n_args);
            rep.count(&format!("inputs-per-program-{}", argsets.len()));
            let mut silent_outs = vec![];
            let mut verbose_outs = vec![];
            for args in &argsets {
                let data = c01::value_args(&p.module, fi, args);
                let argw: Vec<String> = args.iter().map(|a| a.wire()).collect();
                let outs: Vec<Out> = progs.iter().map(|c| comp::eval(&c.post, &data)).collect();
                rep.evaluations += 9;
                let canon: Vec<String> = outs.iter().map(|o| c01::read_back(o, &f.ret, &p.module)).collect();
                silent_outs.push(canon[0].clone());
                verbose_outs.push(canon[2].clone());
                let key = format!("{}:args={}", base, argw.join(","));
                if canon.iter().any(|c| c == "budget") {
                    rep.count("inconclusive-budget");
                    continue;
                }
                if canon.iter().all(|c| *c == canon[0]) {
                    rep.count(if canon[0] == "abort" { "same-under-9:abort" } else { "same-under-9:value" });
                    rep.nontrivial.insert(format!("{}|{}", key, canon[0].chars().take(60).collect::<String>()));
                    continue;
                }
                // differing outcomes: which settings abort?
                let table: Vec<String> = settings.iter().zip(canon.iter()).map(|((n, _), c)| format!("{}={}", n, c.chars().take(40).collect::<String>())).collect();
                // the by-design case: only aborts appear/disappear, and they follow the SOURCE trace level
                // (settings with the same `trace_level(false)` agree), in a module whose labels may fail
                let by_level = |lvl: &str| -> Vec<&String> {
                    settings.iter().zip(canon.iter()).filter(|((_, t), _)| comp::source_mode(t) == lvl).map(|(_, c)| c).collect()
                };
                let consistent = ["silent", "compact", "verbose"].iter().all(|l| {
                    let v = by_level(l);
                    v.iter().all(|c| *c == v[0])
                });
                let values: std::collections::BTreeSet<&String> = canon.iter().filter(|c| *c != "abort").collect();
                // is it the optimiser?  the unoptimised programs of all 9 settings agree, an optimised one deviates
                let pre_canon: Vec<String> = progs.iter().map(|c| c01::read_back(&comp::eval(&c.pre, &data), &f.ret, &p.module)).collect();
                rep.evaluations += 9;
                let pre_same = pre_canon.iter().all(|c| *c == pre_canon[0]);
                if pre_same && (p.labels_total || !consistent) {
                    let k = (0..9).find(|k| canon[*k] != pre_canon[*k]).unwrap_or(0);
                    let why = crate::c02::attribute(&progs[k].raw_pre, &data, &comp::eval(&progs[k].pre, &data).canonical());
                    if why.starts_with("clean_up_no_inlines+afterwards") && pre_canon[k] == "abort" {
                        rep.count("known:afterwards-moves-argument-under-lambda");
                        comp::fail_shared(
                            &mut rep,
                            AFTERWARDS_KEY,
                            "under some settings the optimiser's last phase moves the evaluation of a failing argument under a lambda (unoptimised programs agree under all 9 settings)",
                            json!({"source": p.src, "function": f.name, "arguments": argw}),
                            json!({"outcomes": table, "deviating_setting": settings[k].0, "attribution": why}),
                        );
                    } else if comp::cast_check_removed(&comp::eval(&progs[k].pre, &data), &comp::eval(&progs[k].post, &data)) {
                        rep.count("known:optimiser-cancels-data-cast-check");
                        comp::fail_shared(
                            &mut rep,
                            &format!("c14:{}", comp::CAST_KEY_SUFFIX),
                            "under some settings the optimiser cancels <x>Data(un<X>Data d), removing the shape check of an `expect` (the traced check of the verbose builds is not cancelled); unoptimised programs agree under all 9 settings",
                            json!({"source": p.src, "function": f.name, "arguments": argw}),
                            json!({"outcomes": table, "deviating_setting": settings[k].0, "attribution": why}),
                        );
                    } else {
                        rep.fail(
                            &format!("{}:optimiser-differs-by-tracing", key),
                            "the unoptimised programs agree under all 9 settings, an optimised one deviates",
                            json!({"source": p.src, "function": f.name, "arguments": argw}),
                            json!({"outcomes": table, "deviating_setting": settings[k].0, "attribution": why, "labels_total": p.labels_total}),
                        );
                    }
                    continue;
                }
                if !p.labels_total && consistent && values.len() <= 1 {
                    rep.count("known:failing-label-decides");
                    comp::fail_shared(
                        &mut rep,
                        &format!("c14:{}", KNOWN_SUFFIX),
                        "a trace label / argument that fails aborts the builds that evaluate it and not the others (by design: the checker drops it)",
                        json!({"source": p.src, "function": f.name, "arguments": argw}),
                        json!({"outcomes": table}),
                    );
                } else {
                    rep.fail(
                        &format!("{}:tracing-changes-outcome", key),
                        "the outcome depends on the tracing setting",
                        json!({"source": p.src, "function": f.name, "arguments": argw}),
                        json!({"outcomes": table, "labels_total": p.labels_total}),
                    );
                }
            }
            // malformed arguments: the property quantifies over EVERY input, and an on-chain argument is
            // arbitrary Data — near misses of the conforming arguments (constructor tag moved, a field
            // added / dropped, Int <-> Bytes, wrapped in a list) must be accepted or rejected alike
            // under all nine settings
            // (only in modules whose labels are total: elsewhere a failing label decides, by design)
            for (ai, args) in argsets.iter().take(if p.labels_total { 3 } else { 0 }).enumerate() {
                let data = c01::value_args(&p.module, fi, args);
                for mi in 0..3u64 {
                    let mut bad = data.clone();
                    if bad.is_empty() {
                        continue;
                    }
                    let which = r.below(bad.len());
                    bad[which] = mutate_pd(&mut r, &bad[which], 0);
                    if bad[which] == data[which] {
                        continue;
                    }
                    let outs: Vec<Out> = progs.iter().map(|c| comp::eval(&c.post, &bad)).collect();
                    rep.evaluations += 9;
                    let canon: Vec<String> = outs.iter().map(|o| o.canonical()).collect();
                    if canon.iter().any(|c| c == "budget") {
                        rep.count("malformed:inconclusive-budget");
                        continue;
                    }
                    if canon.iter().all(|c| *c == canon[0]) {
                        rep.count(if canon[0] == "abort" { "malformed:same-under-9:abort" } else { "malformed:same-under-9:value" });
                        rep.nontrivial.insert(format!("{}:malformed#{}.{}|{}", base, ai, mi, canon[0].chars().take(40).collect::<String>()));
                        continue;
                    }
                    let table: Vec<String> = settings.iter().zip(canon.iter()).map(|((n, _), c)| format!("{}={}", n, c.chars().take(40).collect::<String>())).collect();
                    let argw: Vec<String> = bad.iter().map(|d| format!("{:?}", d).chars().take(300).collect()).collect();
                    let pre_outs: Vec<Out> = progs.iter().map(|c| comp::eval(&c.pre, &bad)).collect();
                    let pre_canon: Vec<String> = pre_outs.iter().map(|o| o.canonical()).collect();
                    rep.evaluations += 9;
                    let pre_same = pre_canon.iter().all(|c| *c == pre_canon[0]);
                    if pre_same {
                        let k = (0..9).find(|k| canon[*k] != pre_canon[*k]).unwrap_or(0);
                        if comp::cast_check_removed(&pre_outs[k], &outs[k]) {
                            rep.count("known:optimiser-cancels-data-cast-check");
                            comp::fail_shared(
                                &mut rep,
                                &format!("c14:{}", comp::CAST_KEY_SUFFIX),
                                "under some settings the optimiser cancels <x>Data(un<X>Data d), removing the shape check of an `expect` (the traced check of the verbose builds is not cancelled); unoptimised programs agree under all 9 settings",
                                json!({"source": p.src, "function": f.name, "arguments": argw}),
                                json!({"outcomes": table, "deviating_setting": settings[k].0}),
                            );
                            continue;
                        }
                        // the other listed optimiser finding (the malformed argument plays no part in it)
                        let why = crate::c02::attribute(&progs[k].raw_pre, &bad, &pre_outs[k].canonical());
                        if why.starts_with("clean_up_no_inlines+afterwards") && pre_canon[k] == "abort" {
                            rep.count("known:afterwards-moves-argument-under-lambda");
                            comp::fail_shared(
                                &mut rep,
                                AFTERWARDS_KEY,
                                "under some settings the optimiser's last phase moves the evaluation of a failing argument under a lambda (unoptimised programs agree under all 9 settings)",
                                json!({"source": p.src, "function": f.name, "arguments": argw}),
                                json!({"outcomes": table, "deviating_setting": settings[k].0, "attribution": why}),
                            );
                            continue;
                        }
                    }
                    rep.fail(
                        &format!("{}:malformed#{}.{}:tracing-changes-outcome", base, ai, mi),
                        "the outcome on a malformed argument depends on the tracing setting",
                        json!({"source": p.src, "function": f.name, "arguments": argw}),
                        json!({"outcomes": table, "unoptimised_agree": pre_same}),
                    );
                }
            }
            // the source semantics under the three modes, for the model comparison
            if i % 4 == 0 || !p.labels_total {
                let calls: Vec<(usize, Vec<crate::mini::V>)> = argsets.iter().map(|a| (fi, a.clone())).collect();
                reqs.push((format!("{}:silent", base), crate::mini::mini_request("silent", c01::FUEL, &p.module, &calls), silent_outs));
                reqs.push((format!("{}:verbose", base), crate::mini::mini_request("verbose", c01::FUEL, &p.module, &calls), verbose_outs));
            }
        }
        (rep, reqs)
    });
    let mut reqs = vec![];
    for (r, q) in results {
        comp::merge(&mut rep, r);
        reqs.extend(q);
    }
    rep.count(&format!("generated-modules-{}", n_modules));
    expect_matrix(&mut rep, ctx.thorough);
    // the model agrees with the real builds mode by mode (including the cases of the known finding)
    let requests: Vec<String> = reqs.iter().map(|r| r.1.clone()).collect();
    let replies = driver::run(&requests);
    for ((key, req, real), reply) in reqs.iter().zip(replies.iter()) {
        let outs: Vec<String> = reply.split(" | ").map(c01::model_outcome).collect();
        if outs.len() != real.len() {
            rep.disagree(&format!("{}:driver", key), &req.chars().take(200).collect::<String>(), "one outcome per call", reply);
            continue;
        }
        for (k, (m, r)) in outs.iter().zip(real.iter()).enumerate() {
            rep.evaluations += 1;
            if m == "nofuel" || r == "budget" {
                rep.count("model:inconclusive");
            } else if m == r {
                rep.count("model:agrees-with-build");
            } else {
                // attributed by C01 (optimiser / lowering); here only counted, C01 reports it
                rep.count("model:differs (see C01)");
                let _ = k;
            }
        }
    }
    rep
}


/// `expect` from Data under all nine settings: for every type of the C06 universe that can be cast
/// from Data, `pub fn f(d: Data) -> Int { expect x: T = d  <use x> }` is compiled under the 3 levels x 3
/// scopes and run on the Data of well-formed values of T AND on near misses of them (constructor tag
/// moved, field added / dropped, Int <-> Bytes, wrapped): what a build accepts must not depend on the
/// tracing setting (a validator built silent decides like the one checked verbose)
fn expect_matrix(rep: &mut Report, thorough: bool) {
    use crate::c06_matrix::{universe, PRELUDE};
    use uplc::ast::Constant;
    let settings = comp::settings();
    let u: Vec<_> = universe().into_iter().filter(|t| !t.short.contains("wrap") && !t.short.contains("string") && t.short != "data").collect();
    rep.count_n("expect-matrix:types", u.len() as u64);
    let results = comp::par_map(u.len() as u64, 14, |ti| {
        let t = &u[ti as usize];
        let mut rep = Report::new("c14", "");
        let mut r = crate::prng::Prng::new(0x1414_0000 ^ ti);
        let mks: String = t.mk.iter().enumerate().map(|(k, e)| format!("pub fn mk{k}() -> Data {{\n  let v: {} = {e}\n  let d: Data = v\n  d\n}}\n\n", t.ty)).collect();
        let src = format!("{PRELUDE}{mks}pub fn f(d: Data) -> Int {{\n  expect x: {} = d\n  {}\n}}\n", t.ty, (t.obs)(t, "x"));
        let mut progs = vec![];
        for (sname, tracing) in settings.iter() {
            let ch = match comp::check(&src, *tracing) {
                Ok(c) => c,
                Err(e) => {
                    rep.count(if e.starts_with("panic") { "expect-matrix:checker-panic" } else { "expect-matrix:rejected" });
                    if rep.notes.len() < 2 {
                        rep.notes.push(format!("expect-matrix {} not accepted: {}", t.short, e.chars().take(160).collect::<String>()));
                    }
                    return rep;
                }
            };
            match comp::compile(&ch, "f", *tracing) {
                Ok(c) => progs.push((c, ch)),
                Err(msg) => {
                    rep.fail(&format!("expect-matrix/{}:{}:compile-panic", t.short, sname), "the compiler crashed under one tracing setting", json!({"source": src, "function": "f", "tracing": sname}), json!({"panic": msg}));
                    return rep;
                }
            }
        }
        rep.count("expect-matrix:compiled-under-9-settings");
        // well-formed Data of the type, from the real pipeline
        let mut seeds: Vec<pallas_primitives::alonzo::PlutusData> = vec![];
        for k in 0..t.mk.len() {
            if let Ok(c) = comp::compile(&progs[0].1, &format!("mk{k}"), settings[0].1) {
                if let Out::Const(Constant::Data(d)) = comp::eval(&c.post, &[]) {
                    seeds.push(d);
                }
            }
        }
        let mut inputs: Vec<(String, pallas_primitives::alonzo::PlutusData)> = vec![];
        for (k, d) in seeds.iter().enumerate() {
            inputs.push((format!("wellformed#{k}"), d.clone()));
            for m in 0..(if thorough { 40 } else { 12 }) {
                let bad = mutate_pd(&mut r, d, 0);
                if &bad != d {
                    inputs.push((format!("nearmiss#{k}.{m}"), bad));
                }
            }
        }
        for (label, d) in inputs {
            let args = vec![d.clone()];
            let outs: Vec<Out> = progs.iter().map(|(c, _)| comp::eval(&c.post, &args)).collect();
            rep.evaluations += 9;
            let canon: Vec<String> = outs.iter().map(|o| o.canonical()).collect();
            if canon.iter().any(|c| c == "budget") {
                continue;
            }
            let key = format!("expect-matrix/{}:{}", t.short, label);
            if canon.iter().all(|c| *c == canon[0]) {
                rep.count(if canon[0] == "abort" { "expect-matrix:same-under-9:abort" } else { "expect-matrix:same-under-9:value" });
                rep.nontrivial.insert(format!("{}|{}", key, canon[0].chars().take(30).collect::<String>()));
                continue;
            }
            let table: Vec<String> = settings.iter().zip(canon.iter()).map(|((n, _), c)| format!("{}={}", n, c.chars().take(40).collect::<String>())).collect();
            let pre_outs: Vec<Out> = progs.iter().map(|(c, _)| comp::eval(&c.pre, &args)).collect();
            let pre_canon: Vec<String> = pre_outs.iter().map(|o| o.canonical()).collect();
            let pre_same = pre_canon.iter().all(|c| *c == pre_canon[0]);
            let input = json!({"source": src, "function": "f", "arguments": [format!("{:?}", d).chars().take(400).collect::<String>()]});
            if pre_same {
                let k = (0..9).find(|k| canon[*k] != pre_canon[*k]).unwrap_or(0);
                if comp::cast_check_removed(&pre_outs[k], &outs[k]) {
                    rep.count("known:optimiser-cancels-data-cast-check");
                    comp::fail_shared(
                        &mut rep,
                        &format!("c14:{}", comp::CAST_KEY_SUFFIX),
                        "under some settings the optimiser cancels <x>Data(un<X>Data d), removing the shape check of an `expect` (the traced check of the verbose builds is not cancelled); unoptimised programs agree under all 9 settings",
                        input,
                        json!({"outcomes": table, "deviating_setting": settings[k].0}),
                    );
                    continue;
                }
            }
            // one witness per type
            let prefix = format!("expect-matrix/{}:", t.short);
            if rep.property_failures.iter().any(|f| f["key"].as_str().map(|s| s.starts_with(&prefix)).unwrap_or(false)) {
                rep.count("expect-matrix:more-witnesses-not-listed");
                continue;
            }
            rep.fail(&format!("{}:tracing-changes-outcome", key), "what an `expect` from Data accepts depends on the tracing setting", input, json!({"outcomes": table, "unoptimised_agree": pre_same}));
        }
        rep
    });
    for r in results {
        comp::merge(rep, r);
    }
}

/// a near miss of a Data value: one node changed
pub fn mutate_pd(r: &mut crate::prng::Prng, d: &pallas_primitives::alonzo::PlutusData, depth: u32) -> pallas_primitives::alonzo::PlutusData {
    use pallas_primitives::alonzo::{BigInt as PBigInt, Constr, PlutusData as PD};
    use pallas_primitives::conway::MaybeIndefArray;
    let leaf_int = |n: i64| PD::BigInt(PBigInt::Int(n.into()));
    // descend into a child with probability 1/2 when there is one
    match d {
        PD::Constr(c) if !c.fields.is_empty() && depth < 4 && r.chance(1, 2) => {
            let mut fields: Vec<PD> = c.fields.clone().to_vec();
            let i = r.below(fields.len());
            fields[i] = mutate_pd(r, &fields[i], depth + 1);
            PD::Constr(Constr { tag: c.tag, any_constructor: c.any_constructor, fields: MaybeIndefArray::Indef(fields) })
        }
        PD::Array(xs) if !xs.is_empty() && depth < 4 && r.chance(1, 2) => {
            let mut v: Vec<PD> = xs.clone().to_vec();
            let i = r.below(v.len());
            v[i] = mutate_pd(r, &v[i], depth + 1);
            PD::Array(MaybeIndefArray::Indef(v))
        }
        PD::Constr(c) => {
            let fields: Vec<PD> = c.fields.clone().to_vec();
            let ix: u64 = match c.tag {
                121..=127 => c.tag - 121,
                1280..=1400 => c.tag - 1280 + 7,
                _ => c.any_constructor.unwrap_or(0),
            };
            match r.below(5) {
                0 => uplc::ast::Data::constr(ix + 1, fields),
                1 => uplc::ast::Data::constr(ix + 2, fields),
                2 => uplc::ast::Data::constr(if ix == 0 { 7 } else { 0 }, fields),
                3 => {
                    let mut f = fields.clone();
                    f.push(leaf_int(42));
                    uplc::ast::Data::constr(ix, f)
                }
                _ => {
                    let mut f = fields.clone();
                    if f.is_empty() {
                        PD::Array(MaybeIndefArray::Def(vec![]))
                    } else {
                        f.pop();
                        uplc::ast::Data::constr(ix, f)
                    }
                }
            }
        }
        PD::BigInt(_) => match r.below(3) {
            0 => PD::BoundedBytes(vec![1u8].into()),
            1 => uplc::ast::Data::constr(0, vec![]),
            _ => PD::Array(MaybeIndefArray::Indef(vec![d.clone()])),
        },
        PD::BoundedBytes(_) => match r.below(3) {
            0 => leaf_int(7),
            1 => uplc::ast::Data::constr(1, vec![]),
            _ => PD::Array(MaybeIndefArray::Indef(vec![d.clone()])),
        },
        PD::Array(xs) => match r.below(3) {
            0 => leaf_int(0),
            1 => {
                let mut v: Vec<PD> = xs.clone().to_vec();
                v.push(uplc::ast::Data::constr(9, vec![]));
                PD::Array(MaybeIndefArray::Indef(v))
            }
            _ => uplc::ast::Data::constr(0, xs.clone().to_vec()),
        },
        PD::Map(_) => leaf_int(1),
    }
}
