//! Replica of `aiken_project::tests::TestProject` (which is `cfg(test)`-only):
//! parse + type-check one Aiken module with the public API and hand out a
//! `CodeGenerator`.  Used by C12 / C18 (and usable by any compile-pipeline check).
use aiken_lang::{
    ast::{
        DataTypeKey, Definition, FunctionAccessKey, ModuleKind, TraceLevel, Tracing, TypedDataType,
        TypedFunction,
    },
    builtins,
    expr::TypedExpr,
    gen_uplc::CodeGenerator,
    line_numbers::LineNumbers,
    parser,
    plutus_version::PlutusVersion,
    tipo::TypeInfo,
    utils, IdGenerator,
};
use aiken_project::module::{CheckedModule, CheckedModules, ParsedModule};
use indexmap::IndexMap;
use std::{collections::HashMap, path::PathBuf};
use uplc::ast::{DeBruijn, Program};

pub const MODULE: &str = "test_module";

pub struct Proj {
    pub package: String,
    pub id_gen: IdGenerator,
    pub functions: IndexMap<FunctionAccessKey, TypedFunction>,
    pub constants: IndexMap<FunctionAccessKey, TypedExpr>,
    pub data_types: IndexMap<DataTypeKey, TypedDataType>,
    pub module_types: HashMap<String, TypeInfo>,
    pub module_sources: HashMap<String, (String, LineNumbers)>,
}

impl Proj {
    pub fn new() -> Self {
        let id_gen = IdGenerator::new();
        let mut module_types = HashMap::new();
        module_types.insert("aiken".to_string(), builtins::prelude(&id_gen));
        module_types.insert("aiken/builtin".to_string(), builtins::plutus(&id_gen));
        let functions = builtins::prelude_functions(&id_gen, &module_types);
        let data_types = builtins::prelude_data_types(&id_gen);
        Proj {
            package: "test/project".to_string(),
            id_gen,
            module_types,
            functions,
            constants: IndexMap::new(),
            data_types,
            module_sources: HashMap::new(),
        }
    }

    pub fn new_generator(&'_ self, tracing: Tracing) -> CodeGenerator<'_> {
        CodeGenerator::new(
            PlutusVersion::default(),
            utils::indexmap::as_ref_values(&self.functions),
            utils::indexmap::as_ref_values(&self.constants),
            utils::indexmap::as_ref_values(&self.data_types),
            utils::indexmap::as_str_ref_values(&self.module_types),
            utils::indexmap::as_str_ref_values(&self.module_sources),
            tracing,
        )
    }

    /// parse + infer; `Err` carries a printable reason (the module is not accepted)
    pub fn check(&mut self, source_code: &str) -> Result<CheckedModule, String> {
        self.check_tracing(source_code, Tracing::All(TraceLevel::Silent))
    }

    /// `check` with the `Tracing` the type checker runs under (it decides how `trace` / `?` are elaborated)
    pub fn check_tracing(&mut self, source_code: &str, tracing: Tracing) -> Result<CheckedModule, String> {
        let kind = ModuleKind::Validator;
        let name = MODULE.to_owned();
        let (mut ast, extra) =
            parser::module(source_code, kind).map_err(|e| format!("parse: {:?}", e))?;
        ast.name.clone_from(&name);
        let module = ParsedModule {
            kind,
            ast,
            code: source_code.to_string(),
            name,
            path: PathBuf::new(),
            extra,
            package: self.package.clone(),
        };
        let mut warnings = vec![];
        let ast = module
            .ast
            .infer(
                &self.id_gen,
                module.kind,
                &self.package,
                &self.module_types,
                tracing,
                &mut warnings,
                None,
            )
            .map_err(|e| format!("check: {:?}", e))?;
        ast.register_definitions(&mut self.functions, &mut self.constants, &mut self.data_types);
        self.module_sources
            .insert(module.name.clone(), (module.code.clone(), LineNumbers::new(&module.code)));
        self.module_types.insert(module.name.clone(), ast.type_info.clone());
        let mut checked = CheckedModule {
            kind: module.kind,
            extra: module.extra,
            name: module.name,
            code: module.code,
            package: module.package,
            input_path: module.path,
            ast,
        };
        checked.attach_doc_and_module_comments();
        Ok(checked)
    }
}

/// compile every top-level `fn` of the module whose name starts with `prefix`
/// exactly like `aiken export` does (`generate_raw(body, arguments)`), in
/// declaration order
pub fn compile_functions(
    proj: &Proj,
    modules: &CheckedModules,
    prefix: &str,
) -> Vec<(String, Program<DeBruijn>)> {
    let mut generator = proj.new_generator(Tracing::All(TraceLevel::Silent));
    let mut out = vec![];
    for module in modules.values() {
        for def in module.ast.definitions() {
            if let Definition::Fn(func) = def {
                if func.name.starts_with(prefix) {
                    let program = generator.generate_raw(&func.body, &func.arguments, &module.name);
                    let program: Program<DeBruijn> = program.try_into().expect("debruijn");
                    out.push((func.name.clone(), program));
                }
            }
        }
    }
    out
}
