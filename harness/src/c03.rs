//! C03: the evaluator implements UPLC's operational semantics.
//! Correspondence `c03-cek`: real `Machine::run` vs the Lean impl model (which is
//! proved to refine the specification's machine) on generated terms, per variant.
use crate::cek::{self, RealOutcome};
use crate::gen::{self, TermGen, K};
use crate::prng::Prng;
use crate::report::Report;
use crate::{driver, wire, Ctx};
use serde_json::json;
use uplc::machine::cost_model::ExBudget;

pub fn arg_usize(name: &str, default: usize) -> usize {
    let args: Vec<String> = std::env::args().collect();
    for i in 0..args.len() {
        if args[i] == name && i + 1 < args.len() {
            return args[i + 1].parse().unwrap_or(default);
        }
    }
    default
}

pub fn run(ctx: &Ctx) -> Report {
    let mut rep = Report::new(
        "c03-cek",
        "seeded kind-directed random UPLC terms (NamedDeBruijn; depth ≤ 5; 6% junk nodes: open variables, \
         wrong force counts, partial/over-application, ill-typed arguments, constr/case incl. case on constants), \
         each run under the five builtin-semantics variants A–E with the default cost model; compared: \
         ok <discharged term> <remaining budget> | fail | oob | panic. Non-trivial = distinct term whose run \
         took more than one machine transition kind (size ≥ 3)",
    );
    let n = arg_usize("--n", if ctx.thorough { 60000 } else { 6000 });
    let mut rng = Prng::new(ctx.seed);
    let tg = TermGen::new(60);
    let budget = ExBudget { mem: 3_000_000, cpu: 2_000_000_000 };
    let fuel: u64 = 2_000_000;
    let variants = cek::variants();
    let mut terms = vec![];
    // corpus first: the witnesses of past defects
    for t in corpus() {
        terms.push(t);
    }
    // exhaustive small terms (closed and with one free index)
    let max_size = arg_usize("--exhaustive", if ctx.thorough { 5 } else { 4 });
    let mut memo = std::collections::HashMap::new();
    let mut exhaustive = 0u64;
    for sz in 1..=max_size {
        for t in gen::enumerate(sz, 0, &mut memo).iter() {
            terms.push(t.clone());
            exhaustive += 1;
        }
    }
    rep.count_n("exhaustive-terms", exhaustive);
    rep.notes.push(format!("exhaustive enumeration of all terms of size ≤ {} over the small alphabet: {} terms", max_size, exhaustive));
    let n = n + terms.len();
    while terms.len() < n {
        if rng.chance(1, 5) {
            // results that are closures capturing several values, mentioned at different binder depths
            terms.push(gen::closure_result(&mut rng));
            continue;
        }
        if rng.chance(1, 12) {
            // case on a constr with more fields than the branch binds: order of the left-over applications
            terms.push(gen::case_leftover(&mut rng));
            continue;
        }
        let k = *rng.pick(&[K::Int, K::Bytes, K::Bool, K::Data, K::Any, K::ListData, K::Str]);
        let depth = 1 + rng.below(5);
        terms.push(tg.gen(&mut rng, k, &vec![], depth));
    }
    let mut reqs: Vec<String> = vec![];
    let mut real: Vec<String> = vec![];
    let mut meta: Vec<(usize, usize)> = vec![]; // (term index, variant index)
    for (vi, v) in variants.iter().enumerate() {
        reqs.push(cek::costmodel_request(&cek::default_costs(v)));
        real.push("ok".into());
        meta.push((usize::MAX, vi));
        for (ti, t) in terms.iter().enumerate() {
            // every term under E and one other variant chosen by index; corpus under all
            if !(vi == 4 || ti % 4 == vi || ti < 16) {
                continue;
            }
            let out = cek::run_real(v, cek::default_costs(v), budget, 200, t);
            let closed_in = cek::is_closed(t);
            match &out {
                RealOutcome::Ok(res, _) => {
                    rep.count("outcome:ok");
                    if closed_in && !cek::is_closed(res) {
                        rep.fail(
                            &format!("open-result:{}", wire::term(t)),
                            "evaluating a closed term returned a term with a free variable",
                            json!({"term": wire::term(t), "variant": v.name}),
                            json!({"result": wire::term(res)}),
                        );
                    }
                }
                RealOutcome::Fail(e) => {
                    rep.count("outcome:fail");
                    rep.count(&format!("error:{}", e.split(|c: char| !c.is_alphanumeric()).next().unwrap_or("?")));
                }
                RealOutcome::Oob => rep.count("outcome:oob"),
                RealOutcome::Panic(msg) => {
                    rep.count("outcome:panic");
                    rep.fail(
                        &format!("panic:{}", wire::term(t)),
                        "the evaluator panicked",
                        json!({"term": wire::term(t), "variant": v.name}),
                        json!({"panic": msg}),
                    );
                }
            }
            reqs.push(cek::cek_request(v, 200, budget, fuel, t));
            real.push(out.canonical());
            meta.push((ti, vi));
            // the specification's machine (budget-free): same result term / failure
            match &out {
                RealOutcome::Ok(res, _) => {
                    reqs.push(format!("spec {} {} {}", v.name, fuel, wire::term(t)));
                    real.push(format!("ok {}", wire::term(res)));
                    meta.push((ti, vi));
                }
                RealOutcome::Fail(_) => {
                    reqs.push(format!("spec {} {} {}", v.name, fuel, wire::term(t)));
                    real.push("fail".into());
                    meta.push((ti, vi));
                }
                _ => {}
            }
        }
    }
    for t in terms.iter() {
        if gen::term_size(t) >= 3 {
            rep.nontrivial.insert(wire::term(t));
        }
        gen::count_formers(t, &mut rep.distribution);
        rep.count(&format!("size:{}", (gen::term_size(t) / 10) * 10));
    }
    for t in terms.iter().take(6) {
        rep.sample(json!({"term": wire::term(t)}));
    }
    let model = driver::run(&reqs);
    rep.evaluations = reqs.len() as u64;
    for i in 0..reqs.len() {
        if model[i] == "unmodelled" || model[i] == "nofuel" {
            rep.count(&format!("model:{}", model[i]));
            continue;
        }
        if model[i] != real[i] {
            let (ti, vi) = meta[i];
            let key = if ti == usize::MAX { format!("costmodel:{}", variants[vi].name) } else { format!("{}:{}:{}", reqs[i].split(' ').next().unwrap_or("cek"), variants[vi].name, wire::term(&terms[ti])) };
            rep.disagree(&key, &reqs[i].chars().take(4000).collect::<String>(), &real[i].chars().take(2000).collect::<String>(), &model[i].chars().take(2000).collect::<String>());
        }
    }
    rep
}

/// witnesses of defects found earlier (run first, under every variant)
pub fn corpus() -> Vec<gen::T> {
    use gen::*;
    use num_bigint::BigInt;
    use std::rc::Rc;
    use uplc::ast::{Constant, Term};
    use uplc::builtins::DefaultFunction as F;
    let int = |i: i64| con(Constant::Integer(BigInt::from(i)));
    vec![
        // D1: captured variable under constr / case must be substituted on discharge
        app(lam(delay(Term::Constr { tag: 0, fields: vec![var(1)] })), int(1)),
        app(lam(lam(Term::Case { constr: Rc::new(var(2)), branches: vec![var(1), var(2)] })), int(7)),
        // D2: free variable beyond the environment
        var(5),
        app(lam(var(3)), int(1)),
        var(0),
        // D3: huge slice/index/constr arguments
        app(app(app(Term::Builtin(F::SliceByteString), con(Constant::Integer(pow2(128)))), int(1)), con(Constant::ByteString(vec![1, 2, 3]))),
        app(app(app(Term::Builtin(F::SliceByteString), int(1)), con(Constant::Integer(pow2(64)))), con(Constant::ByteString(vec![1, 2, 3]))),
        app(app(Term::Builtin(F::IndexByteString), con(Constant::ByteString(vec![1, 2, 3]))), con(Constant::Integer(pow2(128)))),
        app(app(Term::Builtin(F::IndexByteString), con(Constant::ByteString(vec![1, 2, 3]))), con(Constant::Integer(-pow2(130)))),
        app(app(Term::Builtin(F::ConstrData), int(-1)), con(Constant::ProtoList(uplc::ast::Type::Data, vec![]))),
        app(app(Term::Builtin(F::ConstrData), con(Constant::Integer(pow2(64)))), con(Constant::ProtoList(uplc::ast::Type::Data, vec![]))),
        // D4: writeBits costing with a non-list
        app(app(app(Term::Builtin(F::WriteBits), con(Constant::ByteString(vec![0]))), int(1)), con(Constant::Bool(true))),
    ]
}
