//! C20 share: arbitrary JSON given to blueprint loading and arbitrary TOML given to `aiken.toml`
//! loading produce a value or an error (no panic).  Mutations of the shipped files.
use crate::prng::Prng;
use crate::report::{guarded, Report};
use crate::Ctx;
use serde_json::json;
use std::panic::AssertUnwindSafe;

fn collect(dir: &std::path::Path, name: &str, out: &mut Vec<std::path::PathBuf>) {
    if let Ok(rd) = std::fs::read_dir(dir) {
        for e in rd.flatten() {
            let p = e.path();
            if p.is_dir() {
                if p.file_name().map(|n| n == "build" || n == "target").unwrap_or(false) {
                    continue;
                }
                collect(&p, name, out);
            } else if p.file_name().map(|n| n == name).unwrap_or(false) {
                out.push(p);
            }
        }
    }
}

fn mutate(r: &mut Prng, s: &str) -> String {
    let mut b: Vec<u8> = s.as_bytes().to_vec();
    if b.is_empty() {
        return String::new();
    }
    let tokens: [&[u8]; 14] = [b"{", b"}", b"[", b"]", b"\"", b":", b",", b"null", b"-1", b"1e999", b"\\u0000", b"99999999999999999999999", b"=", b"\n"];
    for _ in 0..(1 + r.below(4)) {
        if b.is_empty() {
            break;
        }
        match r.below(6) {
            0 => {
                let n = r.below(b.len());
                b.truncate(n);
            }
            1 => {
                let i = r.below(b.len().max(1));
                let t = *r.pick(&tokens);
                for (k, c) in t.iter().enumerate() {
                    b.insert((i + k).min(b.len()), *c);
                }
            }
            2 => {
                if !b.is_empty() {
                    let i = r.below(b.len());
                    b.remove(i);
                }
            }
            3 => {
                if !b.is_empty() {
                    let i = r.below(b.len());
                    b[i] = (r.next() % 96 + 32) as u8;
                }
            }
            4 => {
                // duplicate a slice
                if b.len() > 4 {
                    let i = r.below(b.len() - 2);
                    let j = (i + 1 + r.below(40)).min(b.len());
                    let slice: Vec<u8> = b[i..j].to_vec();
                    let at = r.below(b.len());
                    for (k, c) in slice.iter().enumerate() {
                        b.insert(at + k, *c);
                    }
                }
            }
            _ => {
                // swap a value for a wrongly typed one
                let pats: [(&[u8], &[u8]); 4] = [(b"\"v3\"", b"3"), (b"\"dataType\"", b"\"datatype\""), (b"[", b"{"), (b"\"hash\"", b"\"hash\": 1, \"x\"")];
                let (from, to) = *r.pick(&pats);
                if let Some(pos) = b.windows(from.len()).position(|w| w == from) {
                    b.splice(pos..pos + from.len(), to.iter().cloned());
                }
            }
        }
    }
    String::from_utf8_lossy(&b).to_string()
}


/// structure-aware mutants: every string VALUE of the document (first occurrences per key) replaced by
/// each of its short prefixes, by itself with a multi-byte character inserted at each early offset, by
/// the empty string and by a long string — the inputs on which slicing / `split_at` / prefix handling of
/// hand-written deserialisers goes wrong
fn string_mutants(doc: &serde_json::Value, per_key: usize) -> Vec<String> {
    use serde_json::Value;
    fn walk(v: &Value, path: &mut Vec<String>, key: &str, seen: &mut std::collections::BTreeMap<String, usize>, per_key: usize, out: &mut Vec<(Vec<String>, String)>) {
        match v {
            Value::String(s) => {
                let n = seen.entry(key.to_string()).or_insert(0);
                if *n < per_key {
                    *n += 1;
                    out.push((path.clone(), s.clone()));
                }
            }
            Value::Array(a) => {
                for (i, x) in a.iter().enumerate() {
                    path.push(format!("#{}", i));
                    walk(x, path, key, seen, per_key, out);
                    path.pop();
                }
            }
            Value::Object(o) => {
                for (k, x) in o.iter() {
                    path.push(k.clone());
                    walk(x, path, k, seen, per_key, out);
                    path.pop();
                }
            }
            _ => {}
        }
    }
    fn set(v: &mut Value, path: &[String], new: &str) {
        if path.is_empty() {
            *v = Value::String(new.to_string());
            return;
        }
        let head = &path[0];
        if let Some(i) = head.strip_prefix('#').and_then(|x| x.parse::<usize>().ok()) {
            if let Value::Array(a) = v {
                if i < a.len() {
                    set(&mut a[i], &path[1..], new);
                }
                return;
            }
        }
        if let Value::Object(o) = v {
            if let Some(x) = o.get_mut(head) {
                set(x, &path[1..], new);
            }
        }
    }
    let mut sites = vec![];
    walk(doc, &mut vec![], "", &mut Default::default(), per_key, &mut sites);
    let mut out = vec![];
    for (path, s) in sites {
        let mut variants: Vec<String> = vec![String::new(), "x".repeat(300)];
        let bounds: Vec<usize> = s.char_indices().map(|(i, _)| i).chain(std::iter::once(s.len())).collect();
        for &b in bounds.iter().take(24) {
            variants.push(s[..b].to_string());
            variants.push(format!("{}\u{e9}{}", &s[..b], &s[b..]));
        }
        for var in variants {
            let mut d = doc.clone();
            set(&mut d, &path, &var);
            out.push(d.to_string());
        }
    }
    out
}

pub fn run(ctx: &Ctx) -> Report {
    let mut rep = Report::new(
        "c20-json",
        "every plutus.json under /repo (examples, benchmarks) and every aiken.toml, unchanged and under seeded \
         mutations (truncation, token insertion/deletion, byte flips, duplicated slices, wrongly typed values), \
         given to serde_json::from_str::<Blueprint> resp. ProjectConfig::load; a panic is a failure with the text \
         as replay. Non-trivial = distinct mutated text",
    );
    let n = crate::arg_usize("--n", if ctx.thorough { 40000 } else { 3000 });
    let mut r = Prng::new(ctx.seed ^ 0xC20);
    let root = std::path::Path::new(env!("CARGO_MANIFEST_DIR")).join("../repo");
    let mut bps = vec![];
    collect(&root.join("examples"), "plutus.json", &mut bps);
    collect(&root.join("benchmarks"), "plutus.json", &mut bps);
    let mut tomls = vec![];
    collect(&root.join("examples"), "aiken.toml", &mut tomls);
    collect(&root.join("benchmarks"), "aiken.toml", &mut tomls);
    bps.sort();
    tomls.sort();
    let bp_texts: Vec<String> = bps.iter().filter_map(|p| std::fs::read_to_string(p).ok()).collect();
    let toml_texts: Vec<String> = tomls.iter().filter_map(|p| std::fs::read_to_string(p).ok()).collect();
    rep.notes.push(format!("{} blueprint files, {} aiken.toml files", bp_texts.len(), toml_texts.len()));
    let tmp = std::env::temp_dir().join(format!("verif-c20-json-{}", std::process::id()));
    let _ = std::fs::create_dir_all(&tmp);
    for i in 0..n {
        let is_bp = i % 2 == 0 && !bp_texts.is_empty();
        let src = if is_bp { r.pick(&bp_texts).clone() } else if !toml_texts.is_empty() { r.pick(&toml_texts).clone() } else { continue };
        let text = if i < 2 * (bp_texts.len() + toml_texts.len()) && i % 4 < 2 { src.clone() } else { mutate(&mut r, &src) };
        rep.evaluations += 1;
        rep.nontrivial.insert(format!("{:x}", fxhash(&text)));
        if i < 4 {
            rep.sample(json!({"kind": if is_bp {"blueprint"} else {"aiken.toml"}, "text_prefix": text.chars().take(120).collect::<String>()}));
        }
        let outcome = if is_bp {
            let t = text.clone();
            guarded(AssertUnwindSafe(move || {
                serde_json::from_str::<aiken_project::blueprint::Blueprint>(&t).map(|_| ()).map_err(|e| e.to_string())
            }))
        } else {
            let t = text.clone();
            let dir = tmp.clone();
            guarded(AssertUnwindSafe(move || {
                std::fs::write(dir.join("aiken.toml"), t).map_err(|e| e.to_string())?;
                aiken_project::config::ProjectConfig::load(&dir).map(|_| ()).map_err(|e| format!("{:?}", e).chars().take(80).collect::<String>())
            }))
        };
        match outcome {
            Ok(Ok(())) => rep.count(if is_bp { "blueprint:ok" } else { "toml:ok" }),
            Ok(Err(_)) => rep.count(if is_bp { "blueprint:err" } else { "toml:err" }),
            Err(msg) => {
                rep.count("panic");
                rep.fail(
                    &format!("c20-json:panic:{}:{:x}", if is_bp { "blueprint" } else { "toml" }, fxhash(&text)),
                    "loading malformed input panicked",
                    json!({"kind": if is_bp {"blueprint"} else {"aiken.toml"}, "text": text}),
                    json!({"panic": msg}),
                );
            }
        }
    }
    // structure-aware string mutants of the blueprints
    let n_docs = if ctx.thorough { bp_texts.len() } else { bp_texts.len().min(3) };
    for (di, text) in bp_texts.iter().take(n_docs).enumerate() {
        let doc: serde_json::Value = match serde_json::from_str(text) {
            Ok(d) => d,
            Err(_) => continue,
        };
        for t in string_mutants(&doc, if ctx.thorough { 6 } else { 2 }) {
            rep.evaluations += 1;
            rep.nontrivial.insert(format!("{:x}", fxhash(&t)));
            let t2 = t.clone();
            let outcome = guarded(AssertUnwindSafe(move || {
                serde_json::from_str::<aiken_project::blueprint::Blueprint>(&t2).map(|_| ()).map_err(|e| e.to_string())
            }));
            match outcome {
                Ok(Ok(())) => rep.count("blueprint-string-mutant:ok"),
                Ok(Err(_)) => rep.count("blueprint-string-mutant:err"),
                Err(msg) => {
                    rep.count("panic");
                    // one witness per panic message and document
                    let key = format!("c20-json:panic:blueprint-string:{}:{:x}", di, fxhash(&msg.split('`').step_by(2).collect::<String>().chars().filter(|c| !c.is_ascii_digit()).collect::<String>()));
                    if !rep.property_failures.iter().any(|f| f["key"] == key.as_str()) {
                        rep.fail(&key, "loading malformed input panicked", json!({"kind": "blueprint", "text": t}), json!({"panic": msg}));
                    }
                }
            }
        }
    }
    let _ = std::fs::remove_dir_all(&tmp);
    rep
}

fn fxhash(s: &str) -> u64 {
    let mut h: u64 = 0xcbf29ce484222325;
    for b in s.as_bytes() {
        h ^= *b as u64;
        h = h.wrapping_mul(0x100000001b3);
    }
    h
}
