#!/bin/sh
# MANIFEST.setup_cmd — offline build of the framework from files on disk only.
set -e
cd "$(dirname "$0")"
export CARGO_NET_OFFLINE=true
python3 tools/translate.py || true
(cd lean && lake build driver AikenVerif 2>&1 | tail -5) || true
(cd harness && cargo build --offline 2>&1 | tail -3)
echo setup-done
